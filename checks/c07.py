"""C07 - MSSM contributions decouple: a_mu falls like 1/M_SUSY^2.

base points (lightest SUSY mass >= 300 GeV) x tan(beta) x all 256 sign patterns; every dimensionful SUSY
input (mu, M1, M2, M3, soft masses, A_f, MA) and the renormalisation scale multiplied by
k in {1, 2, 4, ..., 128} at fixed SM input; the statement's inequalities are checked on every step k -> 2k."""
import itertools
import multiprocessing as mp
import os

import numpy as np

import build
import mssmrun
from core import hexf, unhex

META = dict(
    level="exploration",
    technique="exhaustive enumeration of scaled families (base point x tan beta x 256 sign patterns x k = 1..128) built three ways (fresh object, re-used evaluated object, copy of evaluated object), metamorphic scaling oracle on every doubling step plus fresh-vs-re-used agreement",
    text="8 base points (benchmark points of the repository, rescaled where needed so that the lightest SUSY mass is >= 300 GeV, three independent generations, non-zero trilinears) x tan(beta) x all 256 sign patterns of (mu,M1,M2,M3,At,Ab,Atau,Amu); all dimensionful SUSY inputs and Q scaled by k = 1,2,...,128. On every step k -> 2k (k <= 64): |a1L(2k)/a1L(k) - 1/4| <= 50 (MZ/(k M_min))^2 with and without resummation; k^2 a2L(k) affine in log k (second difference over two doublings <= 50 (MZ/(k M_min))^2 sum|components|) and a2L(2k)/a2L(k) in [0.2,0.35] whenever |a2L| >= 0.5 sum|components| at both ends; the log-free 2L component (fermion/sfermion approximation) obeys the 1L bound, the photonic and chargino 2L(a) components the [0.2,0.35] window; |tan_beta_cor(2k) - tan_beta_cor(k)| <= 50 (MZ/(k M_min))^2; the 2L uncertainty is >= 2.3e-10 at every k, k^2 (unc - 2.3e-10) never exceeds 3x its running maximum and (unc - 2.3e-10) at k=128 is <= 2e-3 of its value at k=1. The one-loop bound is applied in two sharper forms as well: with the family constant c_fam = max(1, 2 max_{k<=4} |d(k)|/x_k^2) for k >= 8, and independent of any constant: d(k) = a1L(2k)/a1L(k) - 1/4 must fall at least like 1/k (|d(K)| <= 2 max_{k<=K/2} |d(k)| k/K once above 1e-12), which rounding noise amplified by the 1/k^2 law violates. In addition to the generic base points the degenerate strata are enumerated at msl(2,2) in {320, 1000, 3000} GeV x tan(beta) in {2,3,10,50}: universal smuon soft masses (exact, split 1e-6, 1e-3) x { each of |M1|,|M2|,|mu| at or within +-{1e-3,2e-3,4e-3,1e-2,4e-2} of the smuon soft mass or of the sneutrino mass, either sign, alone or with a second one exactly on it; pairs among |M1|,|M2|,|mu| at or within the same offsets of each other; all five equal with all sign combinations }, every family through k = 1..128 with the ratios between all consecutive k (component windows of the 2L parts are not applied there, the log-free 2L part is normalised to the sum of the moduli of its terms). Sweep strata drive the only k-dependent handles of scale-covariant code - dimensionless quantities that shrink with k - through every half-decade: msl(2,2) in {320, 1000, 3200, 10000, 32000} GeV with mse(2,2) = msl(2,2)(1 + {0, 1e-6, 1e-3, 1}), one of mu, M1, M2 (either sign) at {1, 0.32, 0.1, 0.032, 0.01} x msl(2,2) (>= 320 GeV), tan(beta) in {2,10,50}, k to 128 (thorough 512); the relative smuon mass splitting and |ZM(0,1)| (and the stau/sbottom/stop analogues) are read from the reported spectrum, the half-decades crossed between consecutive k are recorded as a histogram, and the run is an infrastructure error if a half-decade in [1e-9, 1e-4] is never crossed for the smuon splitting or mixing angle. Families on which any member throws or whose lightest SUSY mass is < 300 GeV are counted and skipped. Every family is produced three times: with a freshly built model per member, by moving the already evaluated k=1 object through all k (setters + calculate_masses()), and by moving a copy of the evaluated k=1 object to each k; the inequalities are required on all three, and every quantity (all a_mu functions and helpers, DR-bar masses, Yukawas) of the re-used models must agree with the fresh model of the same parameters to relative 1e-9, with identical exception behaviour.",
    note="trusted: dimensional analysis of the MSSM contributions (the oracle is the scaling relation, no reference numbers). The design's 'uncertainty shrinks by >= 2.5 per doubling / non-increasing' is not implied by the statement and false on the unchanged tree (the 2L(a) sfermion term is (A + B log k)/k^2 and changes sign); it is replaced by the envelope stated in `text`.",
    design_ref="3/C07")

HARNESSES = [(("mssm", "plain", ["mssm.cpp"]), {})]

MZ = 91.1876
FLOOR = 2.3e-10
C = 50.0
C_FAM_MIN = 1.0   # natural size of the O((MZ/M)^2) coefficient (observed <= 1.23 on the strata, <= 4.0 on cancelling sign patterns)
THETA = 0.5      # the 2L total is 'not an accidental cancellation' if |a2L| >= THETA sum|components|
KS = KS_BENCH = [1.0, 2.0, 4.0, 8.0, 16.0, 32.0, 64.0, 128.0]
PATTERNS = list(itertools.product((1.0, -1.0), repeat=8))
# (base point, common pre-factor that lifts its lightest SUSY mass above 300 GeV)
BASES = [("BM1", 1.0), ("BM2", 1.0), ("BM3", 1.0), ("BM4", 1.0), ("P3", 1.0),
         ("example.gm2", 2.0), ("example-gm2calc.cpp", 2.5), ("P1a", 2.0)]
SUSY = ["MChi", "MCha", "MSm", "MSvmL", "MSveL", "MSvtL", "MSe", "MStau", "MSd", "MSu", "MSs", "MSc", "MSb", "MSt", "MGlu"]
COMPS = ["amu2LFSfapprox", "amu2LChipmPhotonic", "amu2LChi0Photonic", "amu2LaSferm", "amu2LaCha"]
FS_PARTS = ["amu2LWHnu", "amu2LWHmuL", "amu2LBHmuL", "amu2LBHmuR", "amu2LBmuLmuR"]
COMPS_NR = ["nr.amu2LFSfapprox_nonres", "nr.amu2LChipmPhotonic", "nr.amu2LChi0Photonic", "nr.amu2LaSferm", "nr.amu2LaCha"]


def check_family(lay, v, KS=None, strata=False):
    """v: list of result vectors for k = KS.  Returns (fails [(check, what)], stats, M_min)"""
    KS = KS or KS_BENCH
    g = lambda i, n: float(v[i][lay[n][0]])
    fails, st = [], {}
    mmin = min(float(np.min(v[0][mssmrun.col(lay, n)])) for n in SUSY)
    MZ = float(v[0][lay["MVZ"][0]]) if "MVZ" in lay else globals()["MZ"]       # the Z mass of the SM input set in use

    def stat(name, val):
        lo, hi = st.get(name, (float("inf"), -float("inf")))
        st[name] = (min(lo, val), max(hi, val))
    umax = 0.0
    for i in range(len(KS) - 1):
        k = KS[i]
        x2 = (MZ / (k * mmin)) ** 2
        # one loop, with and without resummation
        for n in ("amu1L", "amu1L_nonres"):
            a, b = g(i, n), g(i + 1, n)
            r = b / a if a != 0 else float("nan")
            stat("(r-1/4)/x^2 " + n, (r - 0.25) / x2)
            if not abs(r - 0.25) <= C * x2:
                fails.append((n + ":ratio", "%s(%gk0)/%s(%gk0) = %r (values %r, %r): |ratio - 1/4| = %.3e > 50 (MZ/(k M_min))^2 = %.3e, M_min = %.1f"
                              % (n, 2 * k, n, k, r, b, a, abs(r - 0.25), C * x2, mmin)))
        # two loop: total (where it is not an accidental cancellation of its components)
        for n, comps in (("amu2L", COMPS), ("amu2L_nonres", COMPS_NR)):
            a, b = g(i, n), g(i + 1, n)
            ca = sum(abs(g(i, c)) for c in comps)
            cb = sum(abs(g(i + 1, c)) for c in comps)
            if abs(a) >= THETA * ca and abs(b) >= THETA * cb:
                r = b / a
                stat("ratio " + n, r)
                st["n_" + n + "_evaluated"] = st.get("n_" + n + "_evaluated", 0) + 1
                if not 0.2 <= r <= 0.35:
                    fails.append((n + ":ratio", "%s(%gk0)/%s(%gk0) = %r (values %r, %r) outside [0.2, 0.35]" % (n, 2 * k, n, k, r, b, a)))
            else:
                st["n_" + n + "_cancelling"] = st.get("n_" + n + "_cancelling", 0) + 1
            # "1/k^2 up to logarithms": k^2 a2L(k) is affine in log k up to O((MZ/M_SUSY)^2), i.e. its second
            # difference over two doublings vanishes relative to the size of the components
            if i + 2 < len(KS):
                u = [g(i + j, n) * (k * 2 ** j) ** 2 for j in range(3)]
                S = max(sum(abs(g(i + j, c)) for c in comps) * (k * 2 ** j) ** 2 for j in range(3))
                sd = abs(u[2] - 2 * u[1] + u[0])
                stat("|D2 k^2 %s|/(x^2 S)" % n, sd / (x2 * S) if S > 0 else 0.0)
                if not sd <= C * x2 * S:
                    fails.append((n + ":log-affine", "k^2 %s(k) at k = %g, %g, %g k0 is %r: second difference %.3e exceeds 50 (MZ/(k M_min))^2 x sum|components| = %.3e: not 1/k^2 up to a logarithm"
                                  % (n, k, 2 * k, 4 * k, u, sd, C * x2 * S)))
        # two loop components: the fermion/sfermion approximation contains only logarithms of ratios of
        # scaled quantities (Q is scaled), so it obeys the power law like the one-loop result
        for n, pre in (("amu2LFSfapprox", ""), ("amu2LFSfapprox_nonres", "")):
            a, b = g(i, n), g(i + 1, n)
            # relative to the sum of the moduli of its five terms (x tan_beta_cor for the resummed one): for
            # M2 ~ -M1 the wino and bino terms cancel and the ratio of the sums means nothing (8.9 on the unchanged tree)
            parts = sum(abs(g(i, q)) for q in FS_PARTS) * (abs(g(i, "tan_beta_cor")) if n == "amu2LFSfapprox" else 1.0)
            dev = abs(b - a / 4) / (parts / 4) if parts > 0 else float("nan")
            stat("|FSf(2k)-FSf(k)/4|/(x^2 sum|terms|/4) " + n, dev / x2)
            if not dev <= C * x2:
                fails.append((n + ":ratio", "%s(%gk0) = %r, %s(%gk0) = %r: |a(2k) - a(k)/4| = %.3e x sum|terms|/4 > 50 (MZ/(k M_min))^2 = %.3e (log-free 2L component)"
                              % (n, 2 * k, b, n, k, a, dev, C * x2)))
        # component windows: not on the degenerate strata (for mu ~ -M1 the neutralino photonic term itself
        # passes through a cancellation: 0.185 on the unchanged tree); the property only speaks about the total
        for n in (() if strata else ("amu2LChipmPhotonic", "amu2LChi0Photonic", "amu2LaCha")):
            a, b = g(i, n), g(i + 1, n)
            r = b / a if a != 0 else float("nan")
            stat("ratio " + n, r)
            if not 0.2 <= r <= 0.35:
                fails.append((n + ":ratio", "%s(%gk0)/%s(%gk0) = %r (values %r, %r) outside [0.2, 0.35]" % (n, 2 * k, n, k, r, b, a)))
        # resummation factor
        t0, t1 = g(i, "tan_beta_cor"), g(i + 1, "tan_beta_cor")
        stat("(tbc(2k)-tbc(k))/x^2", (t1 - t0) / x2)
        if not abs(t1 - t0) <= C * x2:
            fails.append(("tan_beta_cor", "tan_beta_cor(%gk0) - tan_beta_cor(%gk0) = %.6e exceeds 50 (MZ/(k M_min))^2 = %.3e" % (2 * k, k, t1 - t0, C * x2)))
        # uncertainty: k^2 (unc - floor) grows at most logarithmically
        u0 = (g(i, "unc2L") - FLOOR) * k * k
        u1 = (g(i + 1, "unc2L") - FLOOR) * 4 * k * k
        umax = max(umax, u0)
        stat("k^2(unc-floor)(2k)/running max", u1 / umax if umax > 0 else 0.0)
        if i >= 1 and not u1 <= 3 * umax:
            fails.append(("unc:growth", "k^2 (unc2L - 2.3e-10) = %.4e at %gk0 exceeds 3x its running maximum %.4e: no 1/k^2 decay up to logarithms" % (u1, 2 * k, umax)))
    # one loop, sharper forms of the same bound.  d(k) = a1L(2k)/a1L(k) - 1/4 = (A + B x_k^2 + ..) x_k^2 with a
    # coefficient A that belongs to the family, not to k:
    #  (i) family constant: c_fam = max(1, 2 max_{k<=4} |d(k)|/x_k^2) (factor 2: A + B x^2 may pass through zero near
    #      one of k = 1, 2, 4 but not near all three; floor 1: a family with a second small parameter delta - a
    #      1e-6 smuon splitting, a 1e-3 offset - has a cross-over at delta M^2 ~ MZ^2 where A itself changes by its
    #      natural size, e.g. 0.0035 -> 0.016 at msl = mse (1 + 1e-6) = 64 TeV); for k >= 8: |d(k)| <= c_fam x_k^2 + 1e-12;
    # (ii) independent of any constant: d falls at least like 1/k, |d(K)| <= 2 max_{k<=K/2} |d(k)| k/K, once it is
    #      above 1e-12 (rounding of a ratio of doubles) - rounding noise amplified by the 1/k^2 law grows instead.
    for n in ("amu1L", "amu1L_nonres"):
        d = []
        for i in range(len(KS) - 1):
            a, b = g(i, n), g(i + 1, n)
            d.append(b / a - 0.25 if a != 0 else float("nan"))
        xs = [(MZ / (k * mmin)) ** 2 for k in KS[:-1]]
        cfam = max(C_FAM_MIN, 2 * max(abs(d[i]) / xs[i] for i in range(3)))
        stat("c_fam " + n, cfam)
        for i in range(3, len(d)):
            stat("|d(k)|/(c_fam x^2) k>=8 " + n, abs(d[i]) / (cfam * xs[i] + 1e-12))
            if not abs(d[i]) <= cfam * xs[i] + 1e-12:
                fails.append((n + ":ratio-family-constant",
                              "%s(%gk0)/%s(%gk0) - 1/4 = %.4e but the family's own constant from k <= 4 allows %.3g x (MZ/(k M_min))^2 = %.4e (normalised deviations %s): the deviation is not O((MZ/M_SUSY)^2)"
                              % (n, 2 * KS[i], n, KS[i], d[i], cfam, cfam * xs[i], ["%.3g" % (abs(t) / x_) for t, x_ in zip(d, xs)])))
        for i in range(2, len(d)):
            env = 2 * max(abs(d[j]) * KS[j] / KS[i] for j in range(i) if KS[j] <= KS[i] / 2)
            stat("|d(K)|/(1/k envelope) " + n, abs(d[i]) / env if abs(d[i]) > 1e-12 and env > 0 else 0.0)
            if not (abs(d[i]) <= 1e-12 or abs(d[i]) <= env):
                fails.append((n + ":deviation-grows",
                              "%s(2k)/%s(k) - 1/4 at k = %s k0 is %s: at %gk0 it exceeds twice the 1/k extrapolation %.3e of the smaller k: noise growing with the scale, not an O((MZ/M)^2) correction"
                              % (n, n, [("%g" % k) for k in KS[:-1]], ["%.3e" % t for t in d], KS[i], env)))
    uu = [g(i, "unc2L") for i in range(len(KS))]
    if not all(u >= FLOOR for u in uu):
        fails.append(("unc:below-floor", "two-loop uncertainty %r below its floor 2.3e-10" % min(uu)))
    r128 = (uu[-1] - FLOOR) / (uu[0] - FLOOR) if uu[0] > FLOOR else 0.0
    stat("(unc-floor)(128)/(unc-floor)(1)", r128)
    if not r128 <= 2e-3:
        fails.append(("unc:not-to-floor", "unc2L - 2.3e-10 = %.4e at 128 k0 vs %.4e at k0 (ratio %.3e > 2e-3): not driven to the floor" % (uu[-1] - FLOOR, uu[0] - FLOOR, r128)))
    return fails, st, mmin


# ------------------------------------------------------------------ degenerate strata
# The generic base points never have equal masses.  Finite-precision defects (a Taylor window, a closed-form
# eigenvalue) live exactly on the degenerate strata and are amplified by the 1/k^2 law, so these are enumerated:
# universal smuon soft masses (exact, split by 1e-6, 1e-3); each of |M1|, |M2|, |mu| at / within OFFS of the
# smuon soft mass or the tree-level sneutrino mass, either side, either sign, alone or with a second one exactly
# on it; pairs among |M1|, |M2|, |mu| at / within OFFS of each other; all five equal.
OFFS = [0.0, 1e-3, -1e-3, 2e-3, -2e-3, 4e-3, -4e-3, 1e-2, -1e-2, 4e-2, -4e-2]
SPLITS = [0.0, 1e-6, 1e-3]
SCALES = [320.0, 1000.0, 3000.0]     # 320 rather than 300: the sneutrino D-term would push M_min below the 300 GeV of the quantifier
STRATA_TBS = [2.0, 3.0, 10.0, 50.0]
X3 = ["M1", "M2", "Mu"]
STRATA_COLS = SUSY + ["amu1L", "amu1L_nonres", "amu2L", "amu2L_nonres", "amu2LFSfapprox_nonres", "tan_beta_cor", "unc2L"] + COMPS + COMPS_NR + FS_PARTS + ["mix_Sm", "mix_Stau", "mix_Sb", "mix_St"]


def strata_configs(quick):
    """[(label, {X: (reference 'S' smuon soft mass | 'V' sneutrino mass | 'F' far scale 2S, offset, sign)})];
    parameters not mentioned sit at distinct far values (2.0, 2.3, 2.6) S"""
    out = [("a:universal-smuons-only", {})]
    for ref in ("S", "V"):
        for X in X3:
            for d in OFFS:
                for sg in (1.0, -1.0):
                    out.append(("b:%s~%s" % (X, ref), {X: (ref, d, sg)}))
        for X in X3:
            for Y in X3:
                if X == Y:
                    continue
                for d in OFFS:
                    for sg in (1.0, -1.0):
                        out.append(("b2:%s~%s,%s=%s" % (X, ref, Y, ref), {X: (ref, d, sg), Y: (ref, 0.0, 1.0)}))
    for i, X in enumerate(X3):
        for Y in X3[i + 1:]:
            for d in OFFS:
                for sg in (1.0, -1.0):
                    out.append(("c:%s~%s" % (Y, X), {X: ("F", 0.0, 1.0), Y: ("F", d, sg)}))
    for s1 in (1.0, -1.0):
        for s2 in (1.0, -1.0):
            for s3 in (1.0, -1.0):
                out.append(("d:all-five-equal", {"M1": ("S", 0.0, s1), "M2": ("S", 0.0, s2), "Mu": ("S", 0.0, s3)}))
    return out


def strata_point(S, tb, split, cfg, k=1.0):
    import math
    c2b = (1 - tb * tb) / (1 + tb * tb)
    msv = math.sqrt(S * S + 0.5 * MZ * MZ * c2b)
    far = {"M1": 2.0 * S, "M2": 2.3 * S, "Mu": 2.6 * S}
    val = {}
    for X in X3:
        if X in cfg:
            ref, d, sg = cfg[X]
            val[X] = sg * {"S": S, "V": msv, "F": 2.0 * S}[ref] * (1 + d)
        else:
            val[X] = far[X]
    sq = lambda xs: [(k * x) ** 2 for x in xs]
    return dict(tb=tb, Mu=k * val["Mu"], M1=k * val["M1"], M2=k * val["M2"], M3=k * 2.2 * S, MA=k * 1.9 * S, Q=k * S,
                ml2=sq([2.1 * S, S, 2.05 * S]), me2=sq([1.95 * S, S * (1 + split), 2.15 * S]),
                mq2=sq([2.0 * S, 2.1 * S, 1.9 * S]), mu2=sq([2.05 * S, 2.15 * S, 1.8 * S]), md2=sq([1.95 * S, 2.2 * S, 2.0 * S]),
                Ae=[k * 0.1 * S] * 3, Ad=[k * 0.1 * S] * 3, Au=[k * 0.1 * S] * 3, force=0.0)


# Sweep strata.  Scale-covariant code can only depend on k through dimensionless quantities that shrink with k:
# the relative smuon mass splitting ~ m_mu mu tan(beta)/(k M^2) (+ D-terms/(k M)^2), the smuon mixing angle
# ~ m_mu mu tan(beta)/(k |msl^2 - mse^2|), MZ^2/(k M)^2 and the analogous third-generation ones.  A threshold on
# one of them (a shortcut "if nearly degenerate / nearly unmixed") switches at some k inside a family.  So these
# quantities are swept through every half-decade: heavy universal (and split) sleptons with a light mu, M1 or M2.
SWEEP_SCALES = [320.0, 1000.0, 3200.0, 10000.0, 32000.0]
SWEEP_RATIOS = [1.0, 0.32, 0.1, 0.032, 0.01]
SWEEP_TBS = [2.0, 10.0, 50.0]
SWEEP_SPLITS = [0.0, 1e-6, 1e-3, 1.0]            # mse(2,2) = msl(2,2) (1 + split)
KS_SWEEP_THOROUGH = KS_BENCH + [256.0, 512.0]
HALF_DECADES = [-0.5 * j for j in range(4, 22)]   # boundaries 1e-2, 10^-2.5, ..., 10^-10.5
REQUIRED = [e for e in HALF_DECADES if -9.0 <= e <= -4.0]
CROSS_Q = ["smuon_splitting", "smuon_mixing", "stau_splitting", "stau_mixing", "sbottom_splitting", "sbottom_mixing", "stop_splitting", "stop_mixing"]


def sweep_configs(S):
    out = []
    for X in X3:
        for r in SWEEP_RATIOS:
            if r * S < 319.0:
                continue                 # keeps the lightest SUSY mass at >= ~300 GeV
            for sg in (1.0, -1.0):
                out.append(("e:%s=%gM" % (X, r), {X: ("S", r - 1.0, sg)}))
    return out


def crossings(lay, v):
    """{quantity: set of half-decade exponents crossed between consecutive members of the family}"""
    import math
    out = {}
    for q, mass, mix in (("smuon", "MSm", "mix_Sm"), ("stau", "MStau", "mix_Stau"), ("sbottom", "MSb", "mix_Sb"), ("stop", "MSt", "mix_St")):
        for kind in ("splitting", "mixing"):
            seq = []
            for x in v:
                if kind == "splitting":
                    m = x[mssmrun.col(lay, mass)]
                    seq.append(abs(m[1] - m[0]) / max(m[1], m[0]))
                else:
                    seq.append(float(x[lay[mix][0]]))
            s_ = set()
            for a, b in zip(seq[:-1], seq[1:]):
                if a > 0 and b > 0:
                    lo, hi = sorted((math.log10(a), math.log10(b)))
                    s_.update(e for e in HALF_DECADES if lo < e <= hi)
            out["%s_%s" % (q, kind)] = s_
    return out


def _strata_worker(job):
    S, tb, split, kind, KS = job
    cfgs = strata_configs(True) if kind == "deg" else sweep_configs(S)
    nk = len(KS)
    pts = [strata_point(S, tb, split, c, k) for _, c in cfgs for k in KS]
    res, lay = mssmrun.run_os_cols(pts, STRATA_COLS, "plain")
    out = dict(fails=[], stats={}, checked=[], skipped=0, light=0, reasons={}, bylabel={}, cross={}, n=len(cfgs) * nk)
    for ic, (lab, c) in enumerate(cfgs):
        rs = res[ic * nk:(ic + 1) * nk]
        bad = [r for r in rs if r[0] != "OK"]
        if bad:
            out["skipped"] += 1
            k_ = "%s: %s" % (bad[0][1], bad[0][2][:60])
            out["reasons"][k_] = out["reasons"].get(k_, 0) + 1
            continue
        fails, st, mmin = check_family(lay, [r[1] for r in rs], KS=KS, strata=True)
        if mmin < 300.0:
            out["light"] += 1
            continue
        for q, s_ in crossings(lay, [r[1] for r in rs]).items():
            for e in s_:
                out["cross"][(q, e)] = out["cross"].get((q, e), 0) + 1
        key = (lab, tuple(sorted((x, v[1], v[2]) for x, v in c.items())))
        out["checked"].append(key)
        cls = lab.split(":")[0]
        out["bylabel"][cls] = out["bylabel"].get(cls, 0) + 1
        for k_, val in st.items():
            if isinstance(val, tuple):
                lo, hi = out["stats"].get(k_, (float("inf"), -float("inf")))
                out["stats"][k_] = (min(lo, val[0]), max(hi, val[1]))
            else:
                out["stats"][k_] = out["stats"].get(k_, 0) + val
        seen = set()
        for chk, what in fails:
            if chk in seen:
                continue
            seen.add(chk)
            out["fails"].append((lab, c, chk, what))
    return S, tb, split, out


# get_physical() entries that calculate_masses() fills only while they are still zero (copy_susy_masses_to_pole):
# on a re-used object they keep the values of the first evaluation *by construction of the library* and are
# therefore not part of the fresh-vs-re-used agreement (reported in the evidence as stale_pole_entries)
STALE_POLE = ["pole_MChi", "pole_MCha", "pole_MSm", "pole_MSvmL", "pole_MStau", "pole_MSb", "pole_MSt"]
STALE = set(STALE_POLE) | {"nr." + n for n in STALE_POLE}
VARIANTS = (("chain", "reused-chain"), ("copy", "reused-copy"))


def _status(r):
    return ("OK",) if r[0] == "OK" else (r[0], r[1].replace("base:", ""), r[2])


def _worker(job):
    base, k0, tb = job
    lay = mssmrun.layout("plain")["O"]
    nk = len(KS)
    pts = [mssmrun.os_point(base, tb, p, k=k0 * k) for p in PATTERNS for k in KS]
    res = mssmrun.run_os(pts, "plain")
    # second way of producing every family member: the evaluated k = 1 object moved through k = 1,2,..,128
    # one after the other ("chain") and a copy of the evaluated k = 1 object moved to each k ("copy")
    fams = mssmrun.run_osf([(pts[ip * nk], pts[ip * nk:(ip + 1) * nk]) for ip in range(len(PATTERNS))], 3, "plain")
    out = dict(fails=[], stats={}, checked=[], skipped_throw=0, skipped_partial=0, skipped_light=0, reasons={}, mmin=[],
               reused_checked=0, reused_worst={}, stale=0, reused_bitwise=0, reused_numbers=0)
    FA, FB, FWHO = [], [], []
    for ip, p in enumerate(PATTERNS):
        rs = res[ip * nk:(ip + 1) * nk]
        # the re-used objects must succeed / throw exactly where the fresh ones do (a failing base point makes
        # the whole re-used family unavailable)
        if rs[0][0] == "OK":
            for var, tag in VARIANTS:
                for k, f, r in zip(KS, rs, fams[ip][var]):
                    if _status(f)[:2] != _status(r)[:2]:
                        out["fails"].append((p, tag + ":status", "at %g k0 the freshly built model gives %r, the re-used one %r" % (k, _status(f), _status(r))))
        bad = [r for r in rs if r[0] != "OK"]
        if bad:
            if len(bad) == len(rs):
                out["skipped_throw"] += 1
            else:
                out["skipped_partial"] += 1
            k_ = "%s: %s" % (bad[0][1], bad[0][2][:60])
            out["reasons"][k_] = out["reasons"].get(k_, 0) + 1
            continue
        v = [r[1] for r in rs]
        fails, st, mmin = check_family(lay, v)
        if mmin < 300.0:
            out["skipped_light"] += 1
            continue
        out["mmin"].append(mmin)
        out["checked"].append(p)
        for k_, val in st.items():
            if isinstance(val, tuple):
                lo, hi = out["stats"].get(k_, (float("inf"), -float("inf")))
                out["stats"][k_] = (min(lo, val[0]), max(hi, val[1]))
            else:
                out["stats"][k_] = out["stats"].get(k_, 0) + val
        seen = set()
        for chk, what in fails:
            if chk in seen:
                continue
            seen.add(chk)
            out["fails"].append((p, chk, what))
        # (a) the same inequalities on the re-used families, (b) agreement with the fresh members
        for var, tag in VARIANTS:
            rr = fams[ip][var]
            if any(r[0] != "OK" for r in rr):
                continue                  # already reported as status mismatch
            w = [r[1] for r in rr]
            rf, _, _ = check_family(lay, w)
            seen = set()
            for chk, what in rf:
                if chk in seen:
                    continue
                seen.add(chk)
                out["fails"].append((p, tag + ":" + chk, what + "  {family produced by re-using the evaluated k0 model: %s}" % var))
            out["reused_checked"] += 1
            for k, a, b in zip(KS, v, w):
                FA.append(a); FB.append(b); FWHO.append((p, tag, k))
    if FA:
        A, B = np.stack(FA), np.stack(FB)
        bads, worst = mssmrun.compare_block(lay, A, B, skip=STALE)
        out["reused_worst"] = worst
        cols = [i for n, (off, ln) in lay.items() if n not in STALE and n not in mssmrun.SKIP and n != "__n__" for i in range(off, off + ln)]
        out["reused_numbers"] = A.shape[0] * len(cols)
        out["reused_bitwise"] = int((A[:, cols] == B[:, cols]).sum())
        sc = [i for n in STALE_POLE for i in range(lay[n][0], lay[n][0] + lay[n][1])]
        out["stale"] = int((A[:, sc] != B[:, sc]).any(axis=1).sum())
        for (p, tag, k), bad in zip(FWHO, bads):
            seen = set()
            for n, j, x, y, rel in bad:
                if n in seen:
                    continue
                seen.add(n)
                out["fails"].append((p, "%s:differs:%s" % (tag, n),
                                     "%s[%d] = %r on the freshly built model at %g k0 but %r on the re-used model moved to the same parameters (rel. diff %.3e)" % (n, j, x, k, y, rel)))
    # order of the setter calls: a thin subset of the families is built with a non-default SM input set once in
    # the canonical and once in another order (fresh object per member); same inequalities, and every quantity
    # must agree between the two
    OA, OB, OWHO = [], [], []
    sub = [(ip, p) for ip, p in enumerate(PATTERNS) if ip % 16 == 0]
    opts = []
    for j, (ip, p) in enumerate(sub):
        o, sm = 1 + j % 4, 1 + j % 3
        opts += [mssmrun.os_point(base, tb, p, k=k0 * k, order=0, sm=sm) for k in KS]
        opts += [mssmrun.os_point(base, tb, p, k=k0 * k, order=o, sm=sm) for k in KS]
    ores = mssmrun.run_os(opts, "plain")
    out["order_checked"] = 0
    for j, (ip, p) in enumerate(sub):
        o = 1 + j % 4
        r0, r1 = ores[2 * j * nk:(2 * j + 1) * nk], ores[(2 * j + 1) * nk:(2 * j + 2) * nk]
        for k, f, r in zip(KS, r0, r1):
            if _status(f)[:2] != _status(r)[:2]:
                out["fails"].append((p, "order%d:status" % o, "at %g k0 the model set up in the canonical order gives %r, set up in order %d %r" % (k, _status(f), o, _status(r))))
        if any(r[0] != "OK" for r in r0 + r1):
            continue
        w0, w1 = [r[1] for r in r0], [r[1] for r in r1]
        rf, _, mm_ = check_family(lay, w1, strata=True)      # component windows are calibrated for the default SM input set only
        if mm_ < 300.0:
            continue
        out["order_checked"] += 1
        seen = set()
        for chk, what in rf:
            if chk in seen:
                continue
            seen.add(chk)
            out["fails"].append((p, "order%d:%s" % (o, chk), what + "  {family set up in order %d, SM input set %d}" % (o, 1 + j % 3)))
        for k, a, b in zip(KS, w0, w1):
            OA.append(a); OB.append(b); OWHO.append((p, o, k))
    if OA:
        bads, _ = mssmrun.compare_block(lay, np.stack(OA), np.stack(OB))
        for (p, o, k), bad in zip(OWHO, bads):
            seen = set()
            for n, j_, x, y, rel in bad:
                if n in seen:
                    continue
                seen.add(n)
                out["fails"].append((p, "order%d:differs:%s" % (o, n),
                                     "%s[%d] = %r on the model set up in the canonical order at %g k0 but %r when set up in order %d (rel. diff %.3e)" % (n, j_, x, k, y, o, rel)))
    return base, k0, tb, out


def run(ctx):
    build.ensure("plain")
    mssmrun.exe("plain")
    tbs = [1.5, 10.0, 80.0] if ctx.quick else [1.5, 3.0, 10.0, 30.0, 50.0, 80.0]
    jobs = [(b, k0, tb) for b, k0 in BASES for tb in tbs]
    stats, cnt, reasons, mm = {}, dict(checked=0, skipped_throw=0, skipped_partial=0, skipped_light=0), {}, []
    reused, rworst = {}, {}
    with mp.Pool(min(16, os.cpu_count() or 4)) as pool:
        for base, k0, tb, out in pool.imap(_worker, jobs):
            ctx.evals(len(PATTERNS) * len(KS) * 3)
            ctx.evals(2 * 16 * len(KS))
            reused["order_checked"] = reused.get("order_checked", 0) + out.get("order_checked", 0)
            for k_ in ("reused_checked", "stale", "reused_bitwise", "reused_numbers"):
                reused[k_] = reused.get(k_, 0) + out[k_]
            for k_, v in out["reused_worst"].items():
                rworst[k_] = max(rworst.get(k_, 0.0), v)
            for k_ in ("skipped_throw", "skipped_partial", "skipped_light"):
                cnt[k_] += out[k_]
            cnt["checked"] += len(out["checked"])
            mm += out["mmin"]
            for k_, v in out["reasons"].items():
                reasons[k_] = reasons.get(k_, 0) + v
            for k_, val in out["stats"].items():
                if isinstance(val, tuple):
                    lo, hi = stats.get(k_, (float("inf"), -float("inf")))
                    stats[k_] = (min(lo, val[0]), max(hi, val[1]))
                else:
                    stats[k_] = stats.get(k_, 0) + val
            for p in out["checked"]:
                ctx.nontrivial((base, tb, p))
            for p, chk, what in out["fails"]:
                ctx.fail("%s:%s" % (chk, base), "%s  [base %s x %g, tan(beta)=%g, signs(mu,M1,M2,M3,At,Ab,Atau,Amu)=%r]" % (what, base, k0, tb, list(p)),
                         {"base": base, "k0": hexf(k0), "tb": hexf(tb), "signs": list(p)})
            if out["checked"]:
                ctx.sample({"base": base, "k0": k0, "tb": tb, "families_checked": len(out["checked"]),
                            "skipped": out["skipped_throw"] + out["skipped_partial"] + out["skipped_light"]})
    # degenerate strata
    ks_sweep = KS_BENCH if ctx.quick else KS_SWEEP_THOROUGH
    sjobs = [(S, tb, sp, "deg", KS_BENCH) for S in SCALES for tb in STRATA_TBS for sp in SPLITS] + \
            [(S, tb, sp, "sweep", ks_sweep) for S in SWEEP_SCALES for tb in SWEEP_TBS for sp in SWEEP_SPLITS]
    scnt, sstats, sreasons, sby, cross = dict(checked=0, skipped=0, light=0, total=0), {}, {}, {}, {}
    with mp.Pool(min(16, os.cpu_count() or 4)) as pool:
        for S, tb, sp, out in pool.imap(_strata_worker, sjobs):
            ctx.evals(out["n"])
            scnt["total"] += out["n"] // len(KS_BENCH if out["n"] % len(KS_BENCH) == 0 and not out["n"] % len(ks_sweep) == 0 else ks_sweep)
            for k_, v in out["cross"].items():
                cross[k_] = cross.get(k_, 0) + v
            scnt["checked"] += len(out["checked"])
            scnt["skipped"] += out["skipped"]
            scnt["light"] += out["light"]
            for k_, v in out["reasons"].items():
                sreasons[k_] = sreasons.get(k_, 0) + v
            for k_, v in out["bylabel"].items():
                sby[k_] = sby.get(k_, 0) + v
            for k_, val in out["stats"].items():
                if isinstance(val, tuple):
                    lo, hi = sstats.get(k_, (float("inf"), -float("inf")))
                    sstats[k_] = (min(lo, val[0]), max(hi, val[1]))
                else:
                    sstats[k_] = sstats.get(k_, 0) + val
            for key in out["checked"]:
                ctx.nontrivial(("stratum", S, tb, sp) + key)
            for lab, c, chk, what in out["fails"]:
                cls_ = lab.split(":")[0]
                ctx.fail("stratum:%s:%s" % (chk, cls_) if cls_ != "e" else
                         "stratum:%s:e:%s%s:S%g:tb%g:split%g" % (chk, lab.split(":", 1)[1], "" if list(c.values())[0][2] > 0 else "(neg)", S, tb, sp),
                         "%s  [degenerate stratum %s %r, msl(2,2) = %g, mse(2,2) = msl(2,2) (1 + %g), tan(beta) = %g]" % (what, lab, c, S, sp, tb),
                         {"stratum": {"S": hexf(S), "tb": hexf(tb), "split": hexf(sp), "label": lab, "kmax": (ks_sweep[-1] if lab.startswith("e:") else KS_BENCH[-1]),
                                      "cfg": {x: [v[0], hexf(v[1]), v[2]] for x, v in c.items()}}})
    # coverage requirement: the smuon splitting and the smuon mixing angle cross every half-decade in [1e-9, 1e-4]
    hist = {q: {("1e%g" % e): cross.get((q, e), 0) for e in HALF_DECADES} for q in CROSS_Q}
    ctx.note("half_decades_crossed_between_consecutive_k(families per boundary)", hist)
    missing = [(q, "1e%g" % e) for q in ("smuon_splitting", "smuon_mixing") for e in REQUIRED if not cross.get((q, e))]
    if missing:
        from core import InfraError
        raise InfraError("C07 sweep strata do not cross these half-decades: %r" % (missing,))
    ctx.note("strata_families_total", scnt["total"])
    ctx.note("strata_families_checked", scnt["checked"])
    ctx.note("strata_families_skipped(throw)", scnt["skipped"])
    ctx.note("strata_families_skipped(lightest_mass_below_300)", scnt["light"])
    ctx.note("strata_skip_reasons", sreasons)
    ctx.note("strata_families_checked_by_class(a,b,b2,c,d; e = sweep of light mu/M1/M2 under heavy sleptons)", dict(sorted(sby.items())))
    ctx.note("strata_observed_ranges", {k_: ([float("%.4g" % v[0]), float("%.4g" % v[1])] if isinstance(v, tuple) else v)
                                        for k_, v in sorted(sstats.items()) if "amu1L" in k_ or "tbc" in k_})
    ctx.note("families_total", len(jobs) * len(PATTERNS))
    ctx.note("families_checked", cnt["checked"])
    ctx.note("families_skipped_all_members_throw", cnt["skipped_throw"])
    ctx.note("families_skipped_some_members_throw", cnt["skipped_partial"])
    ctx.note("families_skipped_lightest_mass_below_300", cnt["skipped_light"])
    ctx.note("skip_reasons", reasons)
    ctx.note("reused_families_checked(chain+copy)", reused.get("reused_checked", 0))
    ctx.note("families_checked_in_a_non_canonical_setup_order(other SM input sets)", reused.get("order_checked", 0))
    ctx.note("reused_vs_fresh_numbers_compared", reused.get("reused_numbers", 0))
    ctx.note("reused_vs_fresh_numbers_bitwise_equal", reused.get("reused_bitwise", 0))
    ctx.note("reused_vs_fresh_largest_relative_differences",
             {k_: float("%.3g" % v) for k_, v in sorted(rworst.items(), key=lambda kv: -kv[1])[:6]})
    ctx.note("reused_members_with_stale_pole_entries(by design, not compared)", reused.get("stale", 0))
    ctx.note("lightest_susy_mass_range", [float("%.4g" % min(mm)), float("%.4g" % max(mm))] if mm else [])
    ctx.note("observed_ranges", {k_: ([float("%.4g" % v[0]), float("%.4g" % v[1])] if isinstance(v, tuple) else v)
                                 for k_, v in sorted(stats.items())})
    ctx.assumptions += [
        "SM input fixed to input/example.gm2; M_min = lightest of chargino, neutralino, slepton, squark, gluino masses at k = 1",
        "c = 50 in the global O((MZ/M_SUSY)^2) bounds (observed |ratio - 1/4|/x^2 <= 4.0 for a1L on cancelling sign patterns, <= 1.23 on the degenerate strata, <= 0.12 for the log-free 2L part, <= 0.4 for tan_beta_cor); the per-family constant has the floor 1 = natural size of the coefficient, needed because a second small parameter (1e-6 smuon splitting, 1e-3 offset) produces a legitimate cross-over of the coefficient at delta M^2 ~ MZ^2",
        "on the unchanged tree the normalised one-loop deviation never grows with k on any family (max |d(K)| / (1/k envelope) = 0.31): no rounding-noise finding",
        "the [0.2,0.35] window of the 2L total is only tested where |a2L| >= 0.5 sum|components| at both ends of a step (0.3 as in the design is not enough: partial cancellation between components with different logarithmic slopes gives 0.189 at P3, tan beta 50 on the unchanged tree); the log-affine form is tested on every step"]
    return ctx.finish(
        "%d base points x tan(beta) %r x 256 sign patterns x k in {1,2,...,128} (all dimensionful SUSY inputs and Q scaled); "
        "distinct = (base point, tan beta, sign pattern) of families with all 8 members valid and lightest SUSY mass >= 300 GeV" % (len(BASES), tbs),
        {})


def replay(ctx, path):
    import json
    d = json.load(open(path))
    dd = d["data"]
    mssmrun.exe("plain")
    if "stratum" in dd:
        e = dd["stratum"]
        cfg = {x: (v[0], unhex(v[1]), float(v[2])) for x, v in e["cfg"].items()}
        S, tb, sp = unhex(e["S"]), unhex(e["tb"]), unhex(e["split"])
        ks = [k for k in KS_SWEEP_THOROUGH if k <= e.get("kmax", KS_BENCH[-1])]
        res, lay = mssmrun.run_os_cols([strata_point(S, tb, sp, cfg, k) for k in ks], STRATA_COLS, "plain")
        if any(r[0] != "OK" for r in res):
            print("replay: family skipped now (%r)" % ([r[1:3] for r in res if r[0] != "OK"][:1],))
            return 0
        fails, _, mmin = check_family(lay, [r[1] for r in res], KS=ks, strata=True)
        want = d["key"].split(":", 1)[1].split(":e:")[0] if ":e:" in d["key"] else d["key"].split(":", 1)[1].rsplit(":", 1)[0]
        hit = [f for f in fails if f[0] == want] or fails
        for chk, what in hit[:8]:
            print("replay: [%s] %s" % (chk, what))
        if hit and mmin >= 300.0:
            print("VIOLATION property=C07 replay=%s" % path)
            return 1
        print("replay: holds now (all C07 inequalities on the stored degenerate-stratum family)")
        return 0
    lay = mssmrun.layout("plain")["O"]
    p = tuple(float(x) for x in dd["signs"])
    k0, tb = unhex(dd["k0"]), unhex(dd["tb"])
    pts = [mssmrun.os_point(dd["base"], tb, p, k=k0 * k) for k in KS]
    rs = mssmrun.run_os(pts, "plain")
    if any(r[0] != "OK" for r in rs):
        print("replay: family skipped now (%r)" % ([r[1:3] for r in rs if r[0] != "OK"][:1],))
        return 0
    v = [r[1] for r in rs]
    fails, _, mmin = check_family(lay, v)
    fam = mssmrun.run_osf([(pts[0], pts)], 3, "plain")[0]
    for var, tag in VARIANTS:
        rr = fam[var]
        for k, f, r in zip(KS, rs, rr):
            if _status(f)[:2] != _status(r)[:2]:
                fails.append((tag + ":status", "at %g k0 fresh %r, re-used %r" % (k, _status(f), _status(r))))
        if any(r[0] != "OK" for r in rr):
            continue
        w = [r[1] for r in rr]
        fails += [(tag + ":" + chk, what) for chk, what in check_family(lay, w)[0]]
        bads, _ = mssmrun.compare_block(lay, np.stack(v), np.stack(w), skip=STALE)
        for k, bad in zip(KS, bads):
            for n, j, x, y, rel in bad:
                fails.append(("%s:differs:%s" % (tag, n), "%s[%d] = %r fresh vs %r re-used at %g k0 (rel %.3e)" % (n, j, x, y, k, rel)))
    # families set up in a non-canonical order of the setter calls, non-default SM input sets
    for o in (1, 2, 3, 4):
        for sm in (1, 2, 3):
            r0 = mssmrun.run_os([mssmrun.os_point(dd["base"], tb, p, k=k0 * k, order=0, sm=sm) for k in KS], "plain")
            r1 = mssmrun.run_os([mssmrun.os_point(dd["base"], tb, p, k=k0 * k, order=o, sm=sm) for k in KS], "plain")
            for k, f, r in zip(KS, r0, r1):
                if _status(f)[:2] != _status(r)[:2]:
                    fails.append(("order%d:status" % o, "at %g k0 canonical %r, order %d %r" % (k, _status(f), o, _status(r))))
            if any(r[0] != "OK" for r in r0 + r1):
                continue
            w0, w1 = [r[1] for r in r0], [r[1] for r in r1]
            fails += [("order%d:%s" % (o, chk), what) for chk, what in check_family(lay, w1, strata=True)[0]]
            bads, _ = mssmrun.compare_block(lay, np.stack(w0), np.stack(w1))
            for k, bad in zip(KS, bads):
                for n, j, x, y, rel in bad[:2]:
                    fails.append(("order%d:differs:%s" % (o, n), "%s[%d] = %r canonical vs %r in set-up order %d, SM set %d at %g k0 (rel %.3e)" % (n, j, x, y, o, sm, k, rel)))
    want = d["key"].rsplit(":", 1)[0]
    hit = [f for f in fails if f[0] == want] or fails
    for chk, what in hit[:8]:
        print("replay: [%s] %s" % (chk, what))
    if hit and mmin >= 300.0:
        print("VIOLATION property=C07 replay=%s" % path)
        return 1
    print("replay: holds now (all C07 inequalities on the stored family: fresh, re-used objects and every set-up order)")
    return 0
