"""C13 - SLHA input is interpreted by content, not by layout.

Explicit-state breadth-first exploration of *rewrite-operator sequences* over input
files.  State = file text; transition = one layout rewrite operator at one position;
invariant checked in every reached state: the reader model (oracle/slha_model.py) says the
content is that of the root, and then (1) stdout numbers + exit status of gm2calc.x and
(2) every parameter the reader fills (harness/cli_mirror.cpp) are identical to the root's.
Plus: scale-rule family, key tables (one documented key perturbed at a time, exactly the
documented parameter must change to exactly that value) and the rejection clause
(bad token at every key/value position of every block that is read; invalid GM2CalcConfig
values)."""
import hashlib
import itertools
import json
import math
import multiprocessing as mp
import os
import re
import struct
import subprocess
import sys

import build
from core import InfraError

sys.path.insert(0, os.path.join(os.path.dirname(os.path.dirname(os.path.abspath(__file__))), "oracle"))
import slha_model as M   # noqa: E402

META = dict(
    level="model_checking",
    technique="explicit-state BFS over layout-rewrite operator sequences (13 operators, all positions) "
              "with a reader model as oracle; exhaustive bad-token and key-perturbation enumeration",
    text="For every shipped example and test-point input (three formats) all single layout rewrites "
         "(block order, case, comments, blank lines, whitespace, number spelling, earlier duplicates, "
         "foreign blocks, unknown keys, blocks at other scales, split blocks, line order) at every position, "
         "and operator sequences to depth 2 (quick) / 3 (thorough) over representative positions, leave the "
         "program's stdout numbers, exit status and every parameter filled by the reader bit-identical; "
         "every documented key changes exactly its documented parameter; every non-numeric token at every "
         "key/value position of a block that is read and every invalid GM2CalcConfig value is rejected with "
         "exit 1 and a diagnostic. Bounded by the operator set, depth and position thinning stated in the rule.",
    note="trusted: oracle/slha_model.py (own transcription of README tables and of the statement's reader "
         "semantics), harness/cli_mirror.cpp calling GM2_slha_io exactly as gm2calc.cpp does; "
         "not covered (not promised): Q=1000 without blank, q=, hex floats, CR line ends",
    design_ref="3/C13")

HARNESSES = [(("cli_mirror", "plain", ["cli_mirror.cpp"]), {})]

REPO = build.REPO
OPT = {"slha": "--slha-input-file=-", "gm2calc": "--gm2calc-input-file=-", "thdm": "--thdm-input-file=-"}
TP_CONFIG = "Block GM2CalcConfig\n     0     0     # minimal output\n     4     0     # non-verbose\n"
BAD_TOKENS = ["abc", "nan", "NaN", "inf", "-inf", "1e400", "1.5x", "3abc", "1D3", "1.2.3", "--1", "1,5"]
OUT_BLOCKS = ("GM2CALCOUTPUT", "LOWEN", "SPHENOLOWENERGY", "SPINFO")


# ----------------------------------------------------------------------------- bases
def load_bases():
    """[(name, fmt, text, is_example)] : 3 shipped examples + all test points with the format
    test/test_points.sh feeds them in (and the config block that script appends)"""
    bases = []
    for fmt, fn in (("slha", "example.slha"), ("gm2calc", "example.gm2"), ("thdm", "example.thdm")):
        bases.append(("input/" + fn, fmt, _nl(open(os.path.join(REPO, "input", fn)).read()), True))
    sh = open(os.path.join(REPO, "test", "test_points.sh")).read()
    for m in re.finditer(r"test_points/([^,\s]+),(\w+),", sh):
        p = os.path.join(REPO, "test", "test_points", m.group(1))
        if os.path.exists(p):
            bases.append(("test_points/" + m.group(1), m.group(2), _nl(open(p).read()) + TP_CONFIG, False))
    return bases


def _nl(t):
    return t if t.endswith("\n") else t + "\n"


# ----------------------------------------------------------------------------- observation
def out_format(fmt, cont):
    v = cont.get(("GM2CALCCONFIG", (0,)))
    return int(v) if v is not None else M.CONFIG_DEFAULT_FORMAT[fmt]


def observe(ofmt, out):
    """the numbers the program was asked for"""
    s = out.decode("latin-1")
    if ofmt in (0, 1):
        return s
    f = M.parse(s, strict=False)
    rows = []
    for b in f.blocks:
        if b.name in OUT_BLOCKS:
            for li in b.data:
                rows.append((b.name,) + tuple(float(t) if M.is_number(t) else t for t in f.lines[li].toks))
    return tuple(rows)


def has_diag(out, err):
    if err.strip():
        return True
    f = M.parse(out.decode("latin-1"), strict=False)
    for b in f.blocks:
        if b.name == "SPINFO":
            for li in b.data:
                if f.lines[li].toks[0] == "4":
                    return True
    return False


_ONE_NUM = re.compile(r"^\s*[+-]?(\d+\.?\d*|\.\d+)([eE][+-]?\d+)?\s*$|^\s*-?nan\s*$|^\s*-?inf\s*$")


def has_number(out, inp):
    """a physics result on stdout that was not part of the (echoed) input"""
    s = out.decode("latin-1")
    if "amu (" in s:
        return True
    if s.count("Delta(g-2)_muon/2") > inp.count("Delta(g-2)_muon/2"):
        return True
    for ln in s.split("\n"):
        if _ONE_NUM.match(ln):
            return True
    if "GM2CALCOUTPUT" in s.upper() and "GM2CALCOUTPUT" not in inp.upper():
        return True
    return False


# ----------------------------------------------------------------------------- workers
_W = {}


def _winit(cli, mirror, decoys=()):
    _W["cli"], _W["mirror"], _W["decoys"] = cli, mirror, tuple(decoys)


def run_cli(fmt, text, timeouts=(30, 120, 600)):
    """a run takes ~5 ms; a timeout on a busy machine is retried with longer limits before it counts as a hang"""
    for to in timeouts:
        try:
            p = subprocess.run([_W["cli"], OPT[fmt]], input=text.encode("latin-1"), stdout=subprocess.PIPE,
                               stderr=subprocess.PIPE, timeout=to)
            return p.returncode, p.stdout, p.stderr
        except subprocess.TimeoutExpired:
            continue
    return "timeout", b"", b""


def run_mirror(items, cmd="F", decoys=()):
    """items: [(fmt, text)] -> list of dump strings (one per item), all read one after the other in ONE
    process.  cmd F: fresh GM2_slha_io per file; R: one GM2_slha_io object re-used for all files.
    decoys: files the process reads first (their dumps are dropped)"""
    if not items:
        return []
    allitems = list(decoys) + list(items)
    inp = b"".join(b"%s %s %d\n" % (cmd.encode(), fmt.encode(), len(t.encode("latin-1"))) + t.encode("latin-1") + b"\n"
                   for fmt, t in allitems)
    p = subprocess.run([_W["mirror"]], input=inp, stdout=subprocess.PIPE, stderr=subprocess.PIPE)
    out = p.stdout.decode("latin-1")
    dumps = re.findall(r"BEGIN \w+\n(.*?)END\n", out, re.S)
    if p.returncode != 0 or len(dumps) != len(allitems):
        return ["MIRROR-DIED rc=%r" % p.returncode] * len(items)
    return dumps[len(decoys):]


def _w_mirror(task):
    items, cmd = task
    return run_mirror(items, cmd)


def parse_dump(d):
    r = {}
    for ln in d.split("\n"):
        if not ln:
            continue
        a = ln.split(" ", 1)
        if a[0] == "EXC":
            r.setdefault("EXC", []).append(a[1])
        else:
            r[a[0]] = a[1]
    return r


def evaluate(fmt, ofmt, texts, decoy=False):
    """[(rc, obs, diag, dump)]; decoy: the mirror process first reads files of all three formats with other
    content (another HMIX scale), so state that survives from one file to the next shows up"""
    dumps = run_mirror([(fmt, t) for t in texts], "F", _W.get("decoys", ()) if decoy else ())
    res = []
    for t, d in zip(texts, dumps):
        rc, out, err = run_cli(fmt, t)
        res.append((rc, observe(ofmt, out), has_diag(out, err), d))
    return res


def _w_eval(task):
    fmt, ofmt, texts = task
    return evaluate(fmt, ofmt, texts)


def _w_raw(task):
    """raw runs for the rejection clause: [(rc, has_diag, has_number, err head)]"""
    fmt, texts = task
    out = []
    for t in texts:
        rc, so, se = run_cli(fmt, t)
        out.append((rc, has_diag(so, se), has_number(so, t), (se[:160] or so[:160]).decode("latin-1")))
    return out


# ----------------------------------------------------------------------------- rewrite operators
def thin(seq, cap):
    """deterministic thinning: at most cap elements, evenly strided, first and last kept"""
    seq = list(seq)
    n = len(seq)
    if cap is None or n <= cap:
        return seq
    if cap == 1:
        return [seq[n // 2]]
    idx = sorted({round(i * (n - 1) / (cap - 1)) for i in range(cap)})
    return [seq[i] for i in idx]


def _alt(s, start_upper=False):
    out, up = [], start_upper
    for ch in s:
        out.append(ch.upper() if up else ch.lower())
        if ch.isalpha():
            up = not up
    return "".join(out)


def _hdr_copy(ln):
    return " ".join(ln.toks)


def other_value(fmt, blk, key, val):
    if blk == "GM2CALCCONFIG" and len(key) == 1 and key[0] in M.CONFIG:
        for a in M.CONFIG[key[0]][1]:
            if float(a) != float(val):
                return "%d" % a
    if blk == "MINPAR" and key == (24,):
        for a in (1, 2, 3, 4, 5, 6):
            if float(a) != float(val):
                return "%d" % a
    return "1.25" if float(val) != 1.25 else "2.5"


FOREIGN = {
    "xyz": "Block FOREIGNXYZ Q= 1.23000000E+02   # a block nobody reads\n"
           "     1     4.20000000E+01   # number\n     2     some text entry\n   3 4   5.0  6.0 7.0\n",
    "decay": "DECAY   1000022   1.00000000E-03   # decay table\n"
             "     5.00000000E-01    2     22   1000023   # BR\n",
}
FOREIGN_FMT = {
    "slha": "Block MINPAR   # known to another input format only\n     3     1.00000000E+01\n    24     7\n"
            "Block VCKMIN\n     1     9.9\n",
    "gm2calc": "Block MASS\n        24     7.00000000E+01\n   1000013     1.00000000E+02\n"
               "Block HMIX Q= 1.00000000E+02\n     2     5.0\nBlock MSOFT Q= 1.00000000E+02\n    32   1.0E+02\n",
    "thdm": "Block MSOFT Q= 1.00000000E+03\n     1     1.00000000E+02\nBlock HMIX Q= 5.00000000E+02\n"
            "     2     4.00000000E+01\nBlock AE Q= 5.00000000E+02\n  2 2   1.0\n",
}
OPS = ["R1", "R2", "R3", "R4", "R5", "R6", "R7", "R8", "R9", "R10", "R11", "R12", "R13", "R14"]


def gen_ops(text, fmt, op, cap):
    """yield (variant, position, new_text) for operator `op` on `text`; positions thinned to `cap`
    per variant (None = all)"""
    L = text.split("\n")
    if L and L[-1] == "":
        L = L[:-1]
    f = M.parse("\n".join(L))
    nL = len(L)
    blocks = f.blocks
    for b in blocks:
        b.end = min(b.end, nL)
    join = lambda ls: "\n".join(ls) + "\n"
    seg = lambda b: L[b.hdr:b.end]
    ql = M.last_hmix_scale(f)
    readb = [(bi, b) for bi, b in enumerate(blocks) if M.block_is_read(f, fmt, b, ql)]

    if op == "R1":
        for i in thin(range(len(blocks) - 1), cap):
            a, b = blocks[i], blocks[i + 1]
            yield "swap", i, join(L[:a.hdr] + seg(b) + seg(a) + L[b.end:])
    elif op == "R2":
        pre = L[:f.pre_end]
        for k in thin(range(1, len(blocks)), cap):
            new = list(pre)
            for b in blocks[k:] + blocks[:k]:
                new += seg(b)
            yield "rot", k, join(new)
        if len(blocks) > 1:
            new = list(pre)
            for b in reversed(blocks):
                new += seg(b)
            yield "rev", 0, join(new)
    elif op == "R3":
        def recase(ln, style):
            (a0, a1), (b0, b1) = ln.spans[0], ln.spans[1]
            kw, nm = ln.toks[0], ln.toks[1]
            if style == "U":
                kw, nm = kw.upper(), nm.upper()
            elif style == "l":
                kw, nm = kw.lower(), nm.lower()
            else:
                kw, nm = _alt(kw), _alt(nm, True)
            return ln.raw[:a0] + kw + ln.raw[a1:b0] + nm + ln.raw[b1:]
        for style in ("U", "l", "a"):
            for i in thin(range(len(blocks)), cap):
                ln = f.lines[blocks[i].hdr]
                new = recase(ln, style)
                if new != ln.raw:
                    yield "case" + style, i, join(L[:blocks[i].hdr] + [new] + L[blocks[i].hdr + 1:])
            new = list(L)
            for b in blocks:
                new[b.hdr] = recase(f.lines[b.hdr], style)
            if new != L:
                yield "all" + style, 0, join(new)
    elif op == "R4":
        for p in thin(range(nL + 1), cap):
            yield "line", p, join(L[:p] + ["# comment line: Block FAKE Q= 1.0 2 3.0"] + L[p:])
        for p in thin(range(nL + 1), cap):
            yield "iline", p, join(L[:p] + ["      \t# indented comment 5 6.0"] + L[p:])
        cand = [i for i in range(nL) if f.lines[i].kind in ("block", "data")]
        for i in thin(cand, cap):
            yield "trail", i, join(L[:i] + [L[i] + "   # c 7 8.0 Block X"] + L[i + 1:])
        cand = [i for i in range(nL) if f.lines[i].kind in ("block", "data") and f.lines[i].comment_at < 0]
        for i in thin(cand, cap):
            yield "adj", i, join(L[:i] + [L[i].rstrip(M.WS) + "# adjacent comment 9"] + L[i + 1:])
    elif op == "R5":
        for p in thin(range(nL + 1), cap):
            yield "blank", p, join(L[:p] + [""] + L[p:])
        for p in thin(range(nL + 1), cap):
            yield "ws", p, join(L[:p] + ["  \t  "] + L[p:])
    elif op == "R6":
        cand = [i for i in range(nL) if f.lines[i].kind in ("block", "data")]

        def rebuild(ln, sep):
            lead = ln.raw[:ln.spans[0][0]]
            rest = ln.raw[ln.spans[-1][1]:]
            return lead + sep.join(ln.toks) + rest
        for var, fn in (("strip", lambda ln: ln.raw.lstrip(M.WS)),
                        ("tab", lambda ln: "\t" + ln.raw),
                        ("sp", lambda ln: "       " + ln.raw),
                        ("midtab", lambda ln: rebuild(ln, "\t")),
                        ("midsp", lambda ln: rebuild(ln, "    ")),
                        ("trailws", lambda ln: ln.raw + "  \t ")):
            for i in thin([i for i in cand if fn(f.lines[i]) != L[i]], cap):
                yield var, i, join(L[:i] + [fn(f.lines[i])] + L[i + 1:])
    elif op == "R7":
        toks = []      # (line, token index)
        for bi, b in readb:
            ln = f.lines[b.hdr]
            if b.q is not None:
                toks.append((b.hdr, 3))
            shape = M.READ[fmt][b.name][0]
            for li in b.data:
                e = M.entry(f.lines[li], shape)
                if e:
                    toks.append((li, e[2]))
        for s in range(6):
            cand = []
            for li, ti in toks:
                sp = M.spellings(f.lines[li].toks[ti])
                if s < len(sp):
                    cand.append((li, ti, sp[s]))
            for li, ti, new in thin(cand, cap):
                a, b_ = f.lines[li].spans[ti]
                yield "s%d" % s, (li, ti), join(L[:li] + [L[li][:a] + new + L[li][b_:]] + L[li + 1:])
        # key tokens: other spellings of the SAME integer (+k, 00k); non-integer spellings (k.0, ke0) are not generated:
        # the reader model only knows integer keys
        ktoks = []
        for bi, b in readb:
            shape = M.READ[fmt][b.name][0]
            for li in b.data:
                e = M.entry(f.lines[li], shape)
                if e:
                    ktoks += [(li, ti) for ti in range(e[2])]
        for var, fn in (("kplus", lambda t: "+" + t if t[0] not in "+-" else None),
                        ("kzero", lambda t: (t[0] + "00" + t[1:]) if t[0] in "+-" else "00" + t)):
            cand = [(li, ti, fn(f.lines[li].toks[ti])) for li, ti in ktoks if fn(f.lines[li].toks[ti])]
            for li, ti, new in thin(cand, cap):
                a, b_ = f.lines[li].spans[ti]
                yield var, (li, ti), join(L[:li] + [L[li][:a] + new + L[li][b_:]] + L[li + 1:])
    elif op == "R8":
        asg = M.assignments(None, fmt, f)
        mk = lambda key, v: "  %s   %s   # earlier duplicate" % (" ".join("%d" % k for k in key), v)
        for bi, li, blk, key, val, ti in thin(asg, cap):
            yield "same", li, join(L[:li] + [mk(key, other_value(fmt, blk, key, val))] + L[li:])
        for bi, li, blk, key, val, ti in thin([a for a in asg if blocks[a[0]].data[0] != a[1]], cap):
            p = blocks[bi].hdr + 1
            yield "top", li, join(L[:p] + [mk(key, other_value(fmt, blk, key, val))] + L[p:])
        for bi, li, blk, key, val, ti in thin(asg, cap):
            p = blocks[bi].hdr
            yield "blk", li, join(L[:p] + [_hdr_copy(f.lines[p]), mk(key, other_value(fmt, blk, key, val))] + L[p:])
        for bi, li, blk, key, val, ti in thin([a for a in asg if a[0] != 0], cap):
            p = f.pre_end
            yield "blk0", li, join(L[:p] + [_hdr_copy(f.lines[blocks[bi].hdr]),
                                            mk(key, other_value(fmt, blk, key, val))] + L[p:])
    elif op == "R9":
        pos = [b.hdr for b in blocks] + [nL]
        for var, txt in sorted(list(FOREIGN.items()) + [("fmt", FOREIGN_FMT[fmt])]):
            for p in thin(pos, cap):
                yield var, p, join(L[:p] + txt.rstrip("\n").split("\n") + L[p:])
    elif op == "R10":
        pos = []
        for bi, b in readb:
            shape = M.READ[fmt][b.name][0]
            if shape == "vec":
                ln = "   9900099     1.50000000E+02   # unknown key" if b.name == "MASS" else \
                     "    9999     1.50000000E+00   # unknown key"
            else:
                ln = "  7 7     1.50000000E+00   # index outside the matrix"
            pos += [(p, ln) for p in [b.hdr + 1] + [li + 1 for li in b.data]]
        for p, ln in thin(pos, cap):
            yield "unk", p, join(L[:p] + [ln] + L[p:])
    elif op == "R11":
        if fmt != "slha" or ql is None:
            return
        eff = {}
        for bi, li, blk, key, val, ti in M.assignments(None, fmt, f):
            if M.READ[fmt][blk][1]:
                eff.setdefault(blk, {})[key] = float(val)
        pos = [b.hdr for b in blocks] + [nL]
        for qv, q2 in (("q+1", ql + 1.0), ("q/2", ql * 0.5)):
            for blk in ("MSOFT", "AU", "AD", "AE", "HMIX"):
                if blk not in eff:
                    continue
                txt = ["Block %s Q= %s   # same block at another scale" % (blk, repr(q2))]
                for key, v in sorted(eff[blk].items()):
                    txt.append("  %s   %s" % (" ".join("%d" % k for k in key), repr(v * 1.5 + 7.0)))
                for p in thin(pos, cap):
                    yield "%s@%s" % (blk, qv), p, join(L[:p] + txt + L[p:])
    elif op == "R12":
        pos = []
        for bi, b in readb:
            pos += [(b.hdr, li) for li in b.data[1:]]
        for h, li in thin(pos, cap):
            yield "split", li, join(L[:li] + [_hdr_copy(f.lines[h])] + L[li:])
    elif op == "R13":
        pos = []
        for bi, b in readb:
            pos += [(a, c) for a, c in zip(b.data, b.data[1:])]
        for a, c in thin(pos, cap):
            new = list(L)
            new[a], new[c] = L[c], L[a]
            yield "swapln", a, join(new)
    elif op == "R14":
        # split a scale-dependent block into two pieces (every way of distributing its keys for blocks of <= 4 keys,
        # otherwise every single key isolated in the first / in the last piece) and put the SAME block at ANOTHER
        # scale, with other values for ALL keys, before / between / after the pieces (never after the last HMIX)
        if fmt != "slha" or ql is None:
            return
        eff = {}
        for bi, li, blk, key, val, ti in M.assignments(None, fmt, f):
            if M.READ[fmt][blk][1]:
                eff.setdefault(blk, {})[key] = float(val)
        for bi, b in readb:
            shape, scaled = M.READ[fmt][b.name]
            if not scaled:
                continue
            ents = [li for li in b.data if M.entry(f.lines[li], shape)]
            for var, pos, new in _split_interleave(L, f, b, ents, eff[b.name], ql, cap):
                yield var, pos, join(new)
    else:
        raise InfraError("unknown operator " + op)


def key_splits(n):
    """ways to distribute n keys over two non-empty pieces: index sets of the SECOND piece"""
    if n < 2:
        return []
    if n <= 4:
        return [frozenset(c) for r in range(1, n) for c in itertools.combinations(range(n), r)]
    return [frozenset([i]) for i in range(n)] + [frozenset(range(n)) - {i} for i in range(n)]


def _split_interleave(L, f, b, ents, effkeys, ql, cap):
    hdr = _hdr_copy(f.lines[b.hdr])
    oths = []
    for qv, q2 in (("q/2", ql * 0.5), ("q+1", ql + 1.0)):
        oth = ["Block %s Q= %s   # same block at another scale, other values" % (b.name, repr(q2))]
        for key, v in sorted(effkeys.items()):
            oth.append("  %s   %s" % (" ".join("%d" % k for k in key), repr(v * 1.5 + 7.0)))
        oths.append((qv, oth))
    # 'before' / 'after' alone are what R12 followed by R11 gives; the block BETWEEN the pieces is the new thing
    for where in ("between", "before+between", "between+after"):
        if b.name == "HMIX" and "after" in where:
            continue          # a later HMIX block would change the deciding scale
        for j, sp in enumerate(thin(key_splits(len(ents)), cap)):
            second = {ents[i] for i in sp}
            p1 = [L[i] for i in range(b.hdr, b.end) if i not in second]
            p2 = [hdr] + [L[i] for i in sorted(second)]
            # all positions (cap None): both other scales; thinned: the two scales alternate
            for qv, oth in (oths if cap is None else [oths[j % 2]]):
                new = L[:b.hdr] + (oth if "before" in where else []) + p1 + oth + p2 \
                    + (oth if "after" in where else []) + L[b.end:]
                yield "%s.%s" % (b.name, where), (b.hdr, tuple(sorted(sp)), qv), new


def _w_expand(task):
    """expand one state with one operator, check the model invariant, run the program.
    returns (transitions, dropped_by_model, model_errors, [(variant, pos, sha, rc, obs_equal, mirror_equal, text|None,
    detail)])"""
    (fmt, ofmt, base_cont, base_rc, base_obs, base_dump, text, op, cap, k, n, want_text, decoy) = task
    cands, dropped, merr = [], 0, []
    for j, (var, pos, new) in enumerate(gen_ops(text, fmt, op, cap)):
        if j % n != k:
            continue
        if new == text:
            continue
        try:
            c = M.content(new, fmt)
        except M.ModelError as e:
            merr.append((op, var, repr(pos), str(e)))
            continue
        if c != base_cont:
            dropped += 1
            continue
        cands.append((var, pos, new))
    res = evaluate(fmt, ofmt, [c[2] for c in cands], decoy)
    out = []
    for (var, pos, new), (rc, obs, diag, dump) in zip(cands, res):
        ok_cli = (rc == base_rc and obs == base_obs)
        ok_mir = (dump == base_dump)
        detail = None
        if not ok_cli:
            detail = "exit %r stdout %r, original: exit %r stdout %r" % (rc, _short(obs), base_rc, _short(base_obs))
        elif not ok_mir:
            detail = "reader filled different parameters%s: %s" % (
                " (read in a process that had read other files before)" if decoy else "", _dump_diff(base_dump, dump))
        out.append((var, pos, hashlib.sha1(new.encode("latin-1")).hexdigest(), ok_cli, ok_mir,
                    new if (want_text or detail) else None, detail))
    return len(cands) + dropped, dropped, merr, out


def _short(o):
    s = repr(o)
    return s if len(s) < 200 else s[:200] + "..."


def _dump_diff(a, b):
    da, db = parse_dump(a), parse_dump(b)
    diff = [(k, da.get(k), db.get(k)) for k in sorted(set(da) | set(db)) if da.get(k) != db.get(k)]
    return ", ".join("%s: %s -> %s" % (k, _hx(x), _hx(y)) for k, x, y in diff[:6]) + (" ..." if len(diff) > 6 else "")


def _hx(s):
    try:
        return repr(float.fromhex(s))
    except (ValueError, TypeError):
        return repr(s)


# ----------------------------------------------------------------------------- BFS
def bfs(ctx, pool, base, depth, caps, k1s, stats, decoy=True):
    """caps[d]: positions per variant at depth d (None = all); k1s[d]: representatives per
    (operator-sequence class) of depth d that are expanded further"""
    name, fmt, text, _ = base
    cont = M.content(text, fmt)
    ofmt = out_format(fmt, cont)
    (rc0, obs0, diag0, dump0), = evaluate(fmt, ofmt, [text])
    if dump0.startswith("MIRROR-DIED"):
        raise InfraError("cli_mirror died on base " + name)
    numeric = bool(re.search(r"\d", repr(obs0))) and rc0 in (0, 1)
    seen = {hashlib.sha1(text.encode("latin-1")).hexdigest()}
    frontier = [(text, ())]
    ctx.evals(1)
    for d in range(1, depth + 1):
        tasks, meta = [], []
        last = d == depth
        for text_s, seq in frontier:
            for op in OPS:
                n = 16 if (d == 1 and caps[d] is None) else 1
                for k in range(n):
                    tasks.append((fmt, ofmt, cont, rc0, obs0, dump0, text_s, op, caps[d], k, n, not last, decoy))
                    meta.append((seq, op))
        newstates = {}
        for (seq, op), (ntr, dropped, merr, out) in zip(meta, pool.imap(_w_expand, tasks, chunksize=1)):
            stats["transitions"] += ntr
            stats["dropped_by_model"][op] = stats["dropped_by_model"].get(op, 0) + dropped
            for e in merr:
                raise InfraError("reader model cannot read a rewritten file (%s): %r" % (name, e))
            for var, pos, sha, ok_cli, ok_mir, new, detail in out:
                if sha in seen:
                    stats["merged"] += 1
                    continue
                seen.add(sha)
                ctx.evals(1)
                nseq = seq + ((op, var, pos),)
                if numeric:
                    ctx.nontrivial((fmt, d, op, var))
                stats["per_op"][op] = stats["per_op"].get(op, 0) + 1
                if detail:
                    what = "cli" if not ok_cli else "reader"
                    ctx.fail("rewrite:%s:%s.%s:%s" % (fmt, op, var.split("@")[0], what),
                             "%s: rewrite %s changes the result: %s" % (name, _seqstr(nseq), detail),
                             {"kind": "rewrite", "base": name, "fmt": fmt, "seq": [list(map(str, s)) for s in nseq],
                              "original": text, "rewritten": new})
                if not last:
                    cls = tuple((o, v) for o, v, _ in nseq)
                    newstates.setdefault(cls, []).append((new, nseq))
                if len(ctx.cov["samples"]) < 6 and d == depth and op in ("R8", "R11", "R12"):
                    ctx.sample({"base": name, "sequence": _seqstr(nseq)})
        if ctx.out_of_time("bfs %s depth %d" % (name, d)):
            break
        frontier = []
        for cls in sorted(newstates):
            frontier += thin(newstates[cls], k1s[d])
    stats["states"] += len(seen)
    return len(seen)


def _seqstr(seq):
    return " ; ".join("%s.%s@%s" % (o, v, p) for o, v, p in seq)


# ----------------------------------------------------------------------------- scale rule
def build_scale_family():
    """-> (refs, refs_noau, cases, qs): single-scale reference files and files with 2-3 HMIX blocks at
    different Q and MSOFT/AU/AD/AE at each of them"""
    text = _nl(open(os.path.join(REPO, "input", "example.slha")).read())
    f = M.parse(text)
    L = text.split("\n")[:-1]
    scaled = [b for b in f.blocks if M.READ["slha"].get(b.name, (0, False))[1]]
    rest = []
    inscaled = set()
    for b in scaled:
        inscaled.update(range(b.hdr, min(b.end, len(L))))
    rest = [L[i] for i in range(len(L)) if i not in inscaled]
    q0 = M.last_hmix_scale(f)
    qs = [q0, q0 + 1.0, q0 * 0.5]

    def group(j):
        """blocks of scale j: name -> lines; values differ per scale"""
        g = {}
        for b in scaled:
            shape = M.READ["slha"][b.name][0]
            out = ["Block %s Q= %s" % (b.name, repr(qs[j]))]
            for li in b.data:
                e = M.entry(f.lines[li], shape)
                v = float(e[1])
                if j:
                    v = v * (1.0 + 0.125 * j) + (3.0 * j if not (b.name == "HMIX" and e[0] == (2,)) else 0.5 * j)
                out.append("  %s   %s" % (" ".join("%d" % k for k in e[0]), repr(v)))
            g[b.name] = out
        return g
    groups = [group(j) for j in range(3)]
    names = ["HMIX", "MSOFT", "AU", "AD", "AE"]
    mk = lambda blocks: "\n".join(rest + [ln for blk in blocks for ln in blk]) + "\n"
    refs = [mk([groups[j][n] for n in names]) for j in range(3)]
    refs_noau = [mk([groups[j][n] for n in names if n != "AU"]) for j in range(3)]
    cases = []   # (descr, text, index of expected reference, ref list, perm)
    for n in (2, 3):
        for perm in itertools.permutations(range(3), n):
            lastj = perm[-1]
            cases.append(("grouped %r" % (perm,), mk([groups[j][nm] for j in perm for nm in names]), lastj, refs, perm))
            cases.append(("by-type, HMIX first %r" % (perm,), mk([groups[j][nm] for nm in names for j in perm]), lastj, refs, perm))
            cases.append(("by-type, HMIX last %r" % (perm,),
                          mk([groups[j][nm] for nm in names[1:] + names[:1] for j in perm]), lastj, refs, perm))
            cases.append(("soft blocks in reverse scale order %r" % (perm,),
                          mk([groups[j][nm] for nm in names[1:] for j in reversed(perm)] + [groups[j]["HMIX"] for j in perm]),
                          lastj, refs, perm))
            cases.append(("soft blocks first grouped, HMIX interleaved %r" % (perm,),
                          mk([b for j in perm for b in ([groups[j][nm] for nm in names[1:]] + [groups[j]["HMIX"]])]),
                          lastj, refs, perm))
            # the AU block of the deciding scale is missing: Au must stay zero, not be taken from another scale
            cases.append(("AU missing at the deciding scale %r" % (perm,),
                          mk([groups[j][nm] for j in perm for nm in names if not (nm == "AU" and j == lastj)]),
                          lastj, refs_noau, perm))
    # split x other scale: the block of the deciding scale in two pieces (all key distributions for small blocks, each
    # single key isolated first/last otherwise) with the same block of ANOTHER scale before / between / after the pieces
    for jo, jl in itertools.permutations(range(3), 2):
        for nm in names:
            lines = groups[jl][nm]
            for sp in key_splits(len(lines) - 1):
                p2 = [lines[0]] + [lines[1 + i] for i in sorted(sp)]
                p1 = [lines[0]] + [lines[1 + i] for i in range(len(lines) - 1) if i not in sp]
                for where in ("between", "before+between", "between+after"):
                    if nm == "HMIX" and "after" in where:
                        continue
                    o = groups[jo][nm]
                    blocks = [groups[jo][x] for x in names if x != nm] + [groups[jl][x] for x in names if x != nm]
                    blocks += ([o] if "before" in where else []) + [p1] + [o] + [p2] + ([o] if "after" in where else [])
                    cases.append(("split %s, other scale %s (%d, %d) second piece %s" % (nm, where, jo, jl, sorted(sp)),
                                  mk(blocks), jl, refs, (jo, jl)))
    return refs, refs_noau, cases, qs


def scale_family(ctx, pool, stats):
    """only the blocks at the scale of the LAST HMIX block may matter"""
    refs, refs_noau, cases, qs = build_scale_family()
    cont_refs = [M.content(r, "slha") for r in refs]
    ofmt = out_format("slha", cont_refs[0])
    rres = pool.map(_w_eval, [("slha", ofmt, [r]) for r in refs + refs_noau])
    rres = [r[0] for r in rres]
    sig = lambda r: (r[0], r[1])
    if len({repr(sig(r)) for r in rres[:3]}) != 3:
        raise InfraError("scale family: the three single-scale reference files do not give three different results")
    res = pool.map(_w_eval, [("slha", ofmt, [c[1]]) for c in cases])
    for (descr, txt, j, rl, perm), (r,) in zip(cases, res):
        ctx.evals(1)
        stats["transitions"] += 1
        stats["states"] += 1
        ref = rres[j] if rl is refs else rres[3 + j]
        reftext = rl[j]
        if M.content(txt, "slha") != M.content(reftext, "slha"):
            raise InfraError("scale family: model content differs from reference for " + descr)
        ctx.nontrivial(("scale", descr.split(" (")[0], j))
        if sig(r) != sig(ref) or r[3] != ref[3]:
            det = ("exit %r stdout %r, single-scale reference: exit %r stdout %r" % (r[0], _short(r[1]), ref[0], _short(ref[1]))
                   if sig(r) != sig(ref) else "reader filled different parameters: " + _dump_diff(ref[3], r[3]))
            ctx.fail("scale:" + descr.split(" (")[0].replace(" ", "_"),
                     "file with HMIX blocks at Q=%s (%s): only the blocks at the last HMIX scale Q=%r may matter, but %s"
                     % ([qs[k] for k in perm], descr, qs[j], det),
                     {"kind": "rewrite", "base": "scale-family " + descr, "fmt": "slha", "original": reftext, "rewritten": txt})
    stats["scale_cases"] = len(cases)


# ----------------------------------------------------------------------------- process isolation
def make_decoys():
    """files of all three formats whose content differs from every base (slha: another HMIX scale)"""
    refs = build_scale_family()[0]
    return [("slha", refs[2]),
            ("gm2calc", _nl(open(os.path.join(REPO, "test", "test_points", "problems_funcs_M1_zero.in")).read())),
            ("thdm", _nl(open(os.path.join(REPO, "test", "test_points", "thdm_gauge-basis.in")).read()))]


def isolation(ctx, pool, bases, stats):
    """the parameters filled from a file must not depend on what the same process read before: several files
    are read one after the other in ONE process (fresh GM2_slha_io + fresh model objects per file; and ONE
    GM2_slha_io object re-used through read_from_file) and every dump must equal bitwise the dump of a
    process that read only that file.  returns True if everything held"""
    refs, refs_noau, cases, qs = build_scale_family()
    by = {b[0]: b for b in bases}
    F = {}                  # label -> (fmt, text)
    for lab, j in (("A", 0), ("B", 1), ("C", 2)):
        F[lab] = ("slha", refs[j])
    F["M01"] = ("slha", [c for c in cases if c[0] == "grouped (0, 1)"][0][1])
    F["M120"] = ("slha", [c for c in cases if c[0] == "grouped (1, 2, 0)"][0][1])
    F["M20r"] = ("slha", [c for c in cases if c[0] == "soft blocks in reverse scale order (2, 0)"][0][1])
    short = {"xs": "input/example.slha", "xg": "input/example.gm2", "xt": "input/example.thdm",
             "ts1": "test_points/problems_hmix_scale.in", "ts2": "test_points/problems_bug_smuon_mixing.in",
             "ts3": "test_points/problems_throw_me2_convergence.in", "ts4": "test_points/problems_bino_reordering.in",
             "tg1": "test_points/problems_funcs_M1_zero.in", "tg2": "test_points/BM1-1504.05500_2L_resummed.in",
             "tt1": "test_points/thdm_gauge-basis.in", "tt2": "test_points/thdm_mass-basis_test_point_1.in",
             "tt3": "test_points/thdm_mass-basis_test_point_6.in"}
    for lab, name in short.items():
        F[lab] = (by[name][1], by[name][2])
    seqs = []               # (family, [labels])
    for x, y in itertools.permutations("ABC", 2):
        seqs.append(("scale", [x, y]))
        seqs.append(("scale", [x, y, x]))
    seqs += [("scale", ["M01", "A"]), ("scale", ["A", "M01", "B"]), ("scale", ["M120", "C", "M120"]),
             ("scale", ["B", "M20r", "A", "M120"]), ("scale", ["C", "B", "A", "B", "C"])]
    for perm in itertools.permutations(["xs", "xg", "xt"]):
        seqs.append(("formats", list(perm) * 2))
    tp = ["ts1", "tg1", "tt1", "ts2", "tg2", "tt2", "ts3", "xs", "tt3", "xg", "ts4", "xt"]
    seqs += [("formats", tp), ("formats", tp[::-1]), ("formats", tp[5:] + tp[:5]), ("formats", tp[8:] + tp[:8]),
             ("formats", ["ts1", "ts3", "ts2", "xs", "ts4", "ts1"]), ("formats", ["tt1", "tt2", "xt", "tt3", "tt1"]),
             ("formats", ["tg1", "xg", "tg2", "tg1"])]
    # a sample of rewritten states of the examples and of the multi-scale test point, read between files with other content
    other = {"input/example.slha": ["C", "ts1"], "input/example.gm2": ["tg1", "xs"], "input/example.thdm": ["tt1", "xs"],
             "test_points/problems_hmix_scale.in": ["A", "tg1"]}
    nstates = 0
    for name in sorted(other):
        _, fmt, text, _ = by[name]
        cont = M.content(text, fmt)
        st = []
        for op in OPS:
            for var, pos, new in gen_ops(text, fmt, op, 1 if ctx.quick else 2):
                if new != text and M.content(new, fmt) == cont:
                    st.append(("%s:%s.%s@%s" % (name.split("/")[-1], op, var, pos), new))
        st = thin(st, 24 if ctx.quick else 80)
        nstates += len(st)
        seq = []
        for i, (lab, new) in enumerate(st):
            if i % 3 == 0:
                seq.append(other[name][(i // 3) % 2])
            F[lab] = (fmt, new)
            seq.append(lab)
        seqs.append(("rewritten", seq))
        seqs.append(("rewritten", seq[::-1]))
    labels = sorted(F)
    single = dict(zip(labels, [r[0] for r in pool.map(_w_mirror, [([F[l]], "F") for l in labels])]))
    single_r = dict(zip(labels, [r[0] for r in pool.map(_w_mirror, [([F[l]], "R") for l in labels])]))
    ok = True
    for l in labels:
        ctx.evals(1)
        if single[l].startswith("MIRROR-DIED"):
            raise InfraError("cli_mirror died on " + l)
        if single_r[l] != single[l]:
            ok = False
            ctx.fail("isolation:file-vs-stream:%s" % F[l][0],
                     "%s: read_from_file and read_from_stream fill different parameters: %s" % (l, _dump_diff(single[l], single_r[l])),
                     {"kind": "isolation", "cmd": "R", "items": [list(F[l])], "labels": [l], "index": 0})
    tasks = [([F[l] for l in seq], cmd) for fam, seq in seqs for cmd in ("F", "R")]
    meta = [(fam, seq, cmd) for fam, seq in seqs for cmd in ("F", "R")]
    ncmp = 0
    for (fam, seq, cmd), dumps in zip(meta, pool.map(_w_mirror, tasks)):
        for i, (l, d) in enumerate(zip(seq, dumps)):
            ctx.evals(1)
            ncmp += 1
            how = "fresh-reader" if cmd == "F" else "reused-reader"
            if i:
                ctx.nontrivial(("isolation", fam, how, F[l][0], F[seq[i - 1]][0]))
            if d != single[l]:
                ok = False
                ctx.fail("isolation:%s:%s:%s" % (fam, how, F[l][0]),
                         "%s input %s read as file #%d of one process (%s, after %s) fills other parameters than in a process of "
                         "its own: %s" % (F[l][0], l, i + 1, "new GM2_slha_io per file" if cmd == "F" else "one GM2_slha_io re-used",
                                          ", ".join(seq[:i]) or "nothing", _dump_diff(single[l], d)),
                         {"kind": "isolation", "cmd": cmd, "items": [list(F[x]) for x in seq[:i + 1]], "labels": seq[:i + 1], "index": i})
    stats["isolation_sequences"] = len(tasks)
    stats["isolation_files_compared"] = ncmp
    stats["isolation_rewritten_states"] = nstates
    return ok


# ----------------------------------------------------------------------------- key tables
def ulps(a, b):
    if a == b:
        return 0
    if math.isnan(a) or math.isnan(b):
        return 1 << 62
    ia, ib = struct.unpack("<q", struct.pack("<d", a))[0], struct.unpack("<q", struct.pack("<d", b))[0]
    ia = ia if ia >= 0 else -(ia & 0x7fffffffffffffff)
    ib = ib if ib >= 0 else -(ib & 0x7fffffffffffffff)
    return abs(ia - ib)


def set_value(text, fmt, blk, key, newtok):
    """replace the value of the effective (last) assignment of (blk,key); if absent add a line to the
    last instance of the block that is read, or a new block at the end of the file"""
    f = M.parse(text)
    L = text.split("\n")[:-1]
    asg = [a for a in M.assignments(None, fmt, f) if a[2] == blk and a[3] == key]
    if asg:
        bi, li, _, _, val, ti = asg[-1]
        a, b = f.lines[li].spans[ti]
        return "\n".join(L[:li] + [L[li][:a] + newtok + L[li][b:]] + L[li + 1:]) + "\n", float(val)
    line = "  %s   %s   # added" % (" ".join("%d" % k for k in key), newtok)
    ql = M.last_hmix_scale(f)
    rb = [b for b in f.blocks if b.name == blk and M.block_is_read(f, fmt, b, ql)]
    if rb:
        p = min(rb[-1].end, len(L))
        return "\n".join(L[:p] + [line] + L[p:]) + "\n", None
    hdr = "Block %s%s" % (blk, " Q= %r" % ql if M.READ[fmt][blk][1] else "")
    return "\n".join(L + [hdr, line]) + "\n", None


VEV = {("slha", "SMINPUTS", (4,)), ("slha", "SMINPUTS", (9,)), ("slha", "MASS", (24,)), ("slha", "HMIX", (2,)),
       ("gm2calc", "SMINPUTS", (4,)), ("gm2calc", "SMINPUTS", (9,)), ("gm2calc", "GM2CALCINPUT", (1,)),
       ("gm2calc", "GM2CALCINPUT", (3,))}


def key_tables(ctx, stats, fails):
    bases = [("slha", "input/example.slha"), ("gm2calc", "input/example.gm2"), ("thdm", "input/example.thdm"),
             ("thdm", "test/test_points/thdm_gauge-basis.in")]
    ntested = 0
    for fmt, rel in bases:
        text0 = _nl(open(os.path.join(REPO, rel)).read())
        variants = [("", text0)]
        if fmt == "slha":
            # README: MASS[24], if given, is used instead of SMINPUTS[9] -> a second base without MASS[24]
            f = M.parse(text0)
            L = text0.split("\n")[:-1]
            drop = [a[1] for a in M.assignments(None, fmt, f) if a[2] == "MASS" and a[3] == (24,)]
            variants.append(("-MASS[24]", "\n".join(l for i, l in enumerate(L) if i not in drop) + "\n"))
        for vname, text in variants:
            keys = sorted(k for k in list(M.DOC) + list(M.DOC_EX) if k[0] == fmt)
            items, info = [(fmt, text)], []
            for (_, blk, key) in keys:
                names, tr = M.DOC.get((fmt, blk, key)) or M.DOC_EX[(fmt, blk, key)]
                cur = M.content(text, fmt).get((blk, key))
                if tr == "ckm" and (cur is None or not M.content(text, fmt).get(("VCKMIN", (1,)))):
                    continue      # Wolfenstein parameters only mean something as a complete set with lambda != 0
                if tr == "int":
                    newtok = other_value(fmt, blk, key, cur if cur is not None else -1) if blk != "MINPAR" else \
                        other_value(fmt, blk, key, cur if cur is not None else 0)
                else:
                    v = cur if cur is not None else 0.0
                    newtok = repr(abs(v) * 1.0625 + 0.015625)
                new, old = set_value(text, fmt, blk, key, newtok)
                items.append((fmt, new))
                info.append((blk, key, names, tr, float(newtok), cur))
            dumps = [parse_dump(d) for d in run_mirror(items)]
            d0 = dumps[0]
            if "EXC" in d0 or not d0:
                raise InfraError("cli_mirror cannot fill the base %s: %r" % (rel, d0.get("EXC")))
            for (blk, key, names, tr, v, cur), d1 in zip(info, dumps[1:]):
                ntested += 1
                ctx.evals(1)
                doc = "README" if (fmt, blk, key) in M.DOC else "example-file comment"
                kname = "%s[%s]" % (blk, ",".join(map(str, key)))
                fkey = "keytable:%s:%s" % (fmt, kname)
                data = {"kind": "keytable", "fmt": fmt, "base": rel + vname, "block": blk, "key": list(key), "value": v}
                if "EXC" in d1:
                    fails.append((fkey, "%s (%s%s): setting %s = %r makes the reader throw %r" % (fmt, rel, vname, kname, v, d1["EXC"]), data))
                    continue
                changed = {n for n in set(d0) | set(d1) if d0.get(n) != d1.get(n)}
                overridden = (fmt == "slha" and blk == "SMINPUTS" and key == (9,) and vname == "")
                if tr == "ckm":
                    bad = {n for n in changed if not n.startswith("sm.ckm")}
                    if bad or not changed:
                        fails.append((fkey, "%s: %s = %r (%s) must change the CKM matrix only; changed: %s"
                                 % (fmt, kname, v, doc, sorted(changed)[:8]), data))
                    else:
                        ctx.nontrivial(("key", fmt, blk, key))
                    continue
                exp = {} if overridden else {n: M.transform(tr, v) for n in names}
                allowed = set(exp)
                if (fmt, blk, key) in VEV:
                    allowed |= {"vd", "vu"}
                if tr == "abs":
                    allowed |= {n for n in changed if n.startswith("ZN")}
                problems = []
                for n, e in sorted(exp.items()):
                    got = float.fromhex(d1[n]) if n in d1 else float("nan")
                    tol = 0 if tr in ("id", "sq", "abs", "int") and n != "TB" else 4
                    if ulps(got, e) > tol:
                        problems.append("%s is %r, documented value %r" % (n, got, e))
                for n in sorted(changed - allowed):
                    if n == "TB" and (fmt, blk, key) in VEV and ulps(float.fromhex(d0[n]), float.fromhex(d1[n])) <= 4:
                        continue
                    problems.append("%s changed %s -> %s although the key does not set it" % (n, _hx(d0.get(n)), _hx(d1.get(n))))
                if problems:
                    fails.append((fkey, "%s input (%s%s): %s = %r, documented (%s) as %s%s: %s"
                             % (fmt, rel, vname, kname, v, doc, "/".join(names),
                                " [overridden by MASS[24]]" if overridden else "", "; ".join(problems[:4])), data))
                else:
                    ctx.nontrivial(("key", fmt, blk, key))
    stats["keys_perturbed"] = ntested


# ----------------------------------------------------------------------------- key aliasing
def alias_tokens(k):
    """key tokens that denote a DIFFERENT integer (or no integer at all) which a sloppy conversion could map onto k:
    (strict, lenient); strict ones must be rejected or behave as an unknown key; the lenient ones are non-integer
    spellings of the same number (the reader model knows integer keys only): they may in addition behave like k"""
    strict = [("k+2^32", "%d" % (k + 2 ** 32)), ("k+2^31", "%d" % (k + 2 ** 31)), ("k-2^32", "%d" % (k - 2 ** 32)),
              ("k-2^31", "%d" % (k - 2 ** 31)), ("k+2^63", "%d" % (k + 2 ** 63)), ("k+2^64", "%d" % (k + 2 ** 64)),
              ("k+2^16", "%d" % (k + 65536)), ("k+256", "%d" % (k + 256)), ("k+NUL", "%d\0" % k), ("k+NULdigit", "%d\0%d" % (k, 1))]
    if k > 0:
        strict.append(("-k", "%d" % -k))
    lenient = [("k.0", "%d.0" % k), ("k.", "%d." % k), ("ke0", "%de0" % k)]
    return strict, lenient


def _obs_has_number(ofmt, obs):
    if ofmt in (0, 1):
        return bool(obs.strip())
    return any(r[0] in ("GM2CALCOUTPUT", "LOWEN", "SPHENOLOWENERGY") for r in obs)


def aliases(ctx, pool, stats):
    """for every documented (block, key) - both indices of matrix entries - an extra line whose key token is an alias
    (see alias_tokens) with ANOTHER value is put before the genuine line, after it, and in its place.  The line must be
    rejected (exit 1, diagnostic, no number, reader throws) or be ignored like an unknown key (program result and reader
    dump identical to the file without the line); it must never set the documented parameter.  Same for a copy of each
    scale-dependent block at Q + 2^32, Q + 2^31, Q + 2^64, -Q."""
    bases = [("slha", "input/example.slha", None), ("gm2calc", "input/example.gm2", None), ("thdm", "input/example.thdm", None),
             ("thdm", "test/test_points/thdm_gauge-basis.in", "MINPAR")]
    tasks, meta = [], []
    for fmt, rel, only in bases:
        text = _nl(open(os.path.join(REPO, rel)).read())
        f = M.parse(text)
        L = text.split("\n")[:-1]
        cont = M.content(text, fmt)
        ofmt = out_format(fmt, cont)
        eff = {}
        for a in M.assignments(None, fmt, f):
            eff[(a[2], a[3])] = a
        texts, tm = [text], [("ref", None, None, None, None)]
        refidx = {None: 0}
        for (blk, key), (bi, li, _, _, val, ti) in sorted(eff.items()):
            if not ((fmt, blk, key) in M.DOC or (fmt, blk, key) in M.DOC_EX) or (only and blk != only):
                continue
            if ctx.quick and len(key) == 2 and fmt == "thdm" and key not in ((1, 1), (2, 3), (3, 3)):
                continue
            ov = other_value(fmt, blk, key, val)
            mkline = lambda kt: "  %s   %s   # alias of %s" % (" ".join(kt), ov, ",".join(map(str, key)))
            dele = "\n".join(L[:li] + L[li + 1:]) + "\n"
            refidx[li] = len(texts)
            texts.append(dele)
            tm.append(("ref", None, None, None, None))
            place = lambda ln, how: ("\n".join(L[:li] + [ln] + L[li:]) if how == "before" else
                                     "\n".join(L[:li + 1] + [ln] + L[li + 1:]) if how == "after" else
                                     "\n".join(L[:li] + [ln] + L[li + 1:])) + "\n"
            for pos in range(len(key)):
                strict, lenient = alias_tokens(key[pos])
                for cls, tok in strict + lenient:
                    try:
                        other = tuple(int(tok) if i == pos else key[i] for i in range(len(key)))
                        if M.known_key(fmt, blk, other):
                            continue              # that integer is a key of its own
                    except ValueError:
                        pass
                    kt = ["%d" % key[i] if i != pos else tok for i in range(len(key))]
                    for how in ("before", "after", "alone"):
                        same = None
                        if (cls, tok) in lenient:       # what the file means if the token is taken as k
                            same = len(texts)
                            texts.append(place(mkline(["%d" % x for x in key]), how))
                            tm.append(("ref", None, None, None, None))
                        texts.append(place(mkline(kt), how))
                        tm.append(("case", "%s[%s]" % (blk, ",".join(map(str, key))), "%s%s" % (cls, "" if len(key) == 1 else "@index%d" % (pos + 1)),
                                   how, (refidx[li] if how == "alone" else 0, same)))
        if fmt == "slha":
            ql = M.last_hmix_scale(f)
            for b in f.blocks:
                if not M.block_is_read(f, fmt, b, ql) or not M.READ[fmt][b.name][1]:
                    continue
                shape = M.READ[fmt][b.name][0]
                for cls, q2 in (("Q+2^32", ql + 2.0 ** 32), ("Q+2^31", ql + 2.0 ** 31), ("Q+2^64", ql + 2.0 ** 64), ("-Q", -ql)):
                    blkl = ["Block %s Q= %s   # scale alias" % (b.name, repr(q2))]
                    for li in b.data:
                        e = M.entry(f.lines[li], shape)
                        if e:
                            blkl.append("  %s   %s" % (" ".join("%d" % k for k in e[0]), repr(float(e[1]) * 1.5 + 7.0)))
                    for how, p in (("before", b.hdr),) + ((("after", min(b.end, len(L))),) if b.name != "HMIX" else ()):
                        texts.append("\n".join(L[:p] + blkl + L[p:]) + "\n")
                        tm.append(("case", "%s:Q" % b.name, cls, how, (0, None)))
        base_i = len(meta)
        for i in range(0, len(texts), 40):
            tasks.append((fmt, ofmt, texts[i:i + 40]))
        meta += [(fmt, rel, ofmt, base_i) + m + (t,) for m, t in zip(tm, texts)]
    flat = []
    for r in pool.imap(_w_eval, tasks, chunksize=1):
        flat += r
    ncase = 0
    outcome = {}
    for (fmt, rel, ofmt, base_i, kind, what, cls, how, refs, txt), r in zip(meta, flat):
        if kind != "case":
            continue
        ncase += 1
        ctx.evals(1)
        ref = flat[base_i + refs[0]]
        ignored = (r[0], r[1], r[3]) == (ref[0], ref[1], ref[3])
        rejected = r[0] == 1 and r[2] and not _obs_has_number(ofmt, r[1]) and "EXC" in parse_dump(r[3])
        same = refs[1] is not None and (r[0], r[1], r[3]) == (flat[base_i + refs[1]][0], flat[base_i + refs[1]][1], flat[base_i + refs[1]][3])
        oc = "ignored" if ignored else "rejected" if rejected else "as-k" if same else "OTHER"
        outcome[(cls.split("@")[0], oc)] = outcome.get((cls.split("@")[0], oc), 0) + 1
        ctx.nontrivial(("alias", fmt, what.split("[")[0], cls, how, oc))
        if oc == "OTHER":
            det = ("exit %r stdout %s (without the line: exit %r stdout %s)" % (r[0], _short(r[1]), ref[0], _short(ref[1]))
                   if (r[0], r[1]) != (ref[0], ref[1]) else "reader: " + _dump_diff(ref[3], r[3]))
            ctx.fail("alias:%s:%s:%s" % (fmt, what.split("[")[0], cls),
                     "%s input (%s): an extra line with key token %s (%s of %s) %s the genuine line is neither rejected nor ignored: %s"
                     % (fmt, rel, cls, "alias" , what, {"before": "before", "after": "after", "alone": "instead of"}[how], det),
                     {"kind": "alias", "fmt": fmt, "text": txt, "reference": meta[base_i + refs[0]][-1],
                      "as_k": None if refs[1] is None else meta[base_i + refs[1]][-1]})
    stats["alias_cases"] = ncase
    stats["alias_outcomes"] = {"%s:%s" % k: v for k, v in sorted(outcome.items())}


# ----------------------------------------------------------------------------- the last assignment wins, for every value
def last_wins(ctx, pool, stats):
    """every documented key assigned twice - in one block, and in two blocks of the same name - with (first, last) in
    {(x,0), (0,x), (x,-0.0), (x,default), (default,x), (x,1e-300), (x,x)}; x = genuine value, default = README default where one
    is documented (GM2CalcConfig).  Program result and reader dump must equal those of the file that carries only the LAST
    value (if that file is rejected, the double assignment must be rejected identically)."""
    bases = [("slha", "input/example.slha", None), ("gm2calc", "input/example.gm2", None), ("thdm", "input/example.thdm", None),
             ("thdm", "test/test_points/thdm_gauge-basis.in", "MINPAR")]
    tasks, meta = [], []
    for fmt, rel, only in bases:
        text = _nl(open(os.path.join(REPO, rel)).read())
        f = M.parse(text)
        L = text.split("\n")[:-1]
        ofmt = out_format(fmt, M.content(text, fmt))
        eff = {}
        for a in M.assignments(None, fmt, f):
            eff[(a[2], a[3])] = a
        texts, tm = [], []
        for (blk, key), (bi, li, _, _, x, ti) in sorted(eff.items()):
            if not ((fmt, blk, key) in M.DOC or (fmt, blk, key) in M.DOC_EX) or (only and blk != only):
                continue
            if ctx.quick and len(key) == 2 and fmt == "thdm" and key not in ((1, 1), (2, 3), (3, 3)):
                continue
            pairs = [(x, "0"), ("0", x), (x, "-0.0"), (x, "1e-300"), (x, x)]
            if blk == "GM2CALCCONFIG":
                dv = "%d" % M.config_default(fmt, key[0])
                pairs += [(x, dv), (dv, x)]
            ks = " ".join("%d" % k for k in key)
            ln = lambda v: "  %s   %s" % (ks, v)
            hdr = _hdr_copy(f.lines[f.blocks[bi].hdr])
            h = f.blocks[bi].hdr
            single = {}
            for first, last in pairs:
                if blk == "MINPAR" and key == (24,) and first == "0":
                    continue      # 0 is not an allowed Yukawa type: an invalid value may be rejected wherever it stands
                if last not in single:
                    single[last] = len(texts)
                    texts.append("\n".join(L[:li] + [ln(last)] + L[li + 1:]) + "\n")
                    tm.append(None)
                texts.append("\n".join(L[:li] + [ln(first), ln(last)] + L[li + 1:]) + "\n")
                tm.append(("%s[%s]" % (blk, ",".join(map(str, key))), "same block", first, last, x, single[last]))
                texts.append("\n".join(L[:h] + [hdr, ln(first)] + L[h:li] + [ln(last)] + L[li + 1:]) + "\n")
                tm.append(("%s[%s]" % (blk, ",".join(map(str, key))), "two blocks", first, last, x, single[last]))
        base_i = len(meta)
        for i in range(0, len(texts), 40):
            tasks.append((fmt, ofmt, texts[i:i + 40]))
        meta += [(fmt, rel, base_i, m, t) for m, t in zip(tm, texts)]
    flat = []
    for r in pool.imap(_w_eval, tasks, chunksize=1):
        flat += r
    n = 0
    for (fmt, rel, base_i, m, txt), r in zip(meta, flat):
        if m is None:
            continue
        what, lay, first, last, x, si = m
        n += 1
        ctx.evals(1)
        ref = flat[base_i + si]
        cls = "(%s,%s)" % ("x" if first == x else first, "x" if last == x else last)
        ctx.nontrivial(("lastwins", fmt, what.split("[")[0], lay, cls, r[0]))
        if (r[0], r[1], r[3]) != (ref[0], ref[1], ref[3]):
            det = ("exit %r stdout %s, file with only the last value: exit %r stdout %s" % (r[0], _short(r[1]), ref[0], _short(ref[1]))
                   if (r[0], r[1]) != (ref[0], ref[1]) else "reader: " + _dump_diff(ref[3], r[3]))
            ctx.fail("lastwins:%s:%s:%s" % (fmt, what, cls),
                     "%s input (%s): %s assigned twice (%s), first %s then %s, does not behave like the single assignment %s: %s"
                     % (fmt, rel, what, lay, first, last, last, det),
                     {"kind": "rewrite", "base": "%s %s twice %s" % (rel, what, cls), "fmt": fmt,
                      "original": meta[base_i + si][4], "rewritten": txt})
    stats["lastwins_cases"] = n


# ----------------------------------------------------------------------------- deletions / defaults
def default_dump(fmt):
    p = subprocess.run([_W["mirror"]], input=b"D %s 0\n" % fmt.encode(), stdout=subprocess.PIPE, stderr=subprocess.PIPE)
    d = re.findall(r"BEGIN \w+\n(.*?)END\n", p.stdout.decode("latin-1"), re.S)
    if p.returncode != 0 or len(d) != 1:
        raise InfraError("cli_mirror cannot dump the default-constructed objects")
    return parse_dump(d[0])


def delete_keys(text, fmt, blk, keys):
    """remove every assignment line of (blk, key) for key in keys from the blocks that are read"""
    f = M.parse(text)
    L = text.split("\n")[:-1]
    drop = {a[1] for a in M.assignments(None, fmt, f) if a[2] == blk and a[3] in keys}
    return "\n".join(l for i, l in enumerate(L) if i not in drop) + "\n"


def deletions(ctx, stats, fails, pmap):
    """a key that is absent must behave like the documented default written explicitly (GM2CalcConfig, README table;
    MASS[24] -> SMINPUTS[9]); where nothing is documented the parameter must keep the value of the default-constructed
    object and NOTHING ELSE may change.  singles and pairs within a block; all subsets for GM2CalcConfig, VCKMIN,
    GM2CalcInput (SLHA mode) and the README keys of SMINPUTS"""
    examples = [("slha", "input/example.slha"), ("gm2calc", "input/example.gm2"), ("thdm", "input/example.thdm")]
    ncase = 0
    # ---- A: documented defaults, compared through the program AND the reader ---------------------------
    tasks, meta = [], []
    for fmt, rel in examples:
        text = _nl(open(os.path.join(REPO, rel)).read())
        cont = M.content(text, fmt)
        full = text
        for k in range(7):      # every entry explicit, with its current effective value
            v = cont.get(("GM2CALCCONFIG", (k,)))
            full, _ = set_value(full, fmt, "GM2CALCCONFIG", (k,), "%d" % (M.config_default(fmt, k) if v is None else int(v)))
        for r in range(1, 8):
            for S in itertools.combinations(range(7), r):
                absent = delete_keys(full, fmt, "GM2CALCCONFIG", {(k,) for k in S})
                dflt = full
                for k in S:
                    dflt, _ = set_value(dflt, fmt, "GM2CALCCONFIG", (k,), "%d" % M.config_default(fmt, k))
                ofmt = out_format(fmt, M.content(dflt, fmt))
                tasks.append((fmt, ofmt, [absent, dflt]))
                meta.append(("GM2CalcConfig%s" % list(S), fmt, "delete:%s:GM2CALCCONFIG%s" % (fmt, list(S)),
                             "README default(s) %s" % [M.config_default(fmt, k) for k in S]))
        if fmt == "slha" and ("SMINPUTS", (9,)) in cont and ("MASS", (24,)) in cont:
            f = M.parse(text)
            tok = [a[4] for a in M.assignments(None, fmt, f) if a[2] == "SMINPUTS" and a[3] == (9,)][-1]
            a_, _ = set_value(text, fmt, "MASS", (24,), tok)
            tasks.append((fmt, out_format(fmt, cont), [delete_keys(text, fmt, "MASS", {(24,)}), a_]))
            meta.append(("MASS[24]", fmt, "delete:slha:MASS[24]", "README: SMINPUTS[9] is used when MASS[24] is not given"))
        if fmt == "thdm":
            for r in range(1, 5):
                for S in itertools.combinations((1, 2, 3, 4), r):
                    zero = text
                    for k in S:
                        zero, _ = set_value(zero, fmt, "VCKMIN", (k,), "0")
                    tasks.append((fmt, out_format(fmt, cont), [delete_keys(text, fmt, "VCKMIN", {(k,) for k in S}), zero]))
                    meta.append(("VCKMIN%s" % list(S), fmt, "delete:thdm:VCKMIN%s" % list(S),
                                 "no documented default; an absent Wolfenstein parameter is compared with an explicit 0"))
    for (what, fmt, fkey, why), (a, d) in zip(meta, pmap(_w_eval, tasks)):
        ncase += 1
        ctx.evals(2)
        ctx.nontrivial(("delete-documented", fmt, what.split("[")[0], len(what.split(","))))
        if (a[0], a[1]) != (d[0], d[1]) or a[3] != d[3]:
            det = ("exit %r stdout %s vs exit %r stdout %s" % (a[0], _short(a[1]), d[0], _short(d[1]))
                   if (a[0], a[1]) != (d[0], d[1]) else "reader: " + _dump_diff(d[3], a[3]))
            fails.append((fkey, "%s input: %s absent must equal the default written explicitly (%s), but: %s"
                          % (fmt, what, why, det), {"kind": "delete", "fmt": fmt}))
    # ---- B: no documented default: parameter keeps the default-constructed value, nothing else moves ---------
    bases = examples + [("thdm", "test/test_points/thdm_gauge-basis.in")]
    nodoc = set()
    required = set()
    for fmt, rel in bases:
        text = _nl(open(os.path.join(REPO, rel)).read())
        cont = M.content(text, fmt)
        ddef = default_dump(fmt)
        byblk = {}
        for (f_, blk, key) in sorted(k for k in list(M.DOC) + list(M.DOC_EX) if k[0] == fmt):
            names, tr = M.DOC.get((fmt, blk, key)) or M.DOC_EX[(fmt, blk, key)]
            if blk == "GM2CALCCONFIG" or tr == "ckm" or (blk, key) not in cont:
                continue
            if names == ["TB"]:
                required.add("%s:%s[%d]" % (fmt, blk, key[0]))     # tan(beta): no default is a model
                continue
            byblk.setdefault(blk, []).append((key, names, tr))
            if not (fmt == "slha" and blk == "MASS" and key == (24,)):
                nodoc.add("%s:%s" % (fmt, blk))
        sets = []
        for blk, ks in sorted(byblk.items()):
            sets += [(blk, (k,)) for k in ks] + [(blk, c) for c in itertools.combinations(ks, 2)]
            if blk == "SMINPUTS":          # all subsets of the README keys
                rk = [k for k in ks if (fmt, blk, k[0]) in M.DOC]
                sets += [(blk, c) for r in range(3, len(rk) + 1) for c in itertools.combinations(rk, r)]
        items = [(fmt, text)] + [(fmt, delete_keys(text, fmt, blk, {k[0] for k in S})) for blk, S in sets]
        chunks = [items[i:i + 200] for i in range(0, len(items), 200)]
        dumps = [parse_dump(d) for ch in pmap(_w_mirror, [(c, "F") for c in chunks]) for d in ch]
        dfull = dumps[0]
        if "EXC" in dfull:
            raise InfraError("cli_mirror cannot fill " + rel)
        for (blk, S), dd in zip(sets, dumps[1:]):
            ncase += 1
            ctx.evals(1)
            what = "+".join("%s[%s]" % (blk, ",".join(map(str, k[0]))) for k in S)
            fkey = "delete:%s:%s" % (fmt, what)
            if "EXC" in dd:
                fails.append((fkey, "%s input (%s): without %s the reader throws %r" % (fmt, rel, what, dd["EXC"]),
                              {"kind": "delete", "fmt": fmt}))
                continue
            exp, allowed = {}, set()
            for key, names, tr in S:
                for n in names:
                    exp[n] = ddef.get(n)
                if fmt == "slha" and blk == "MASS" and key == (24,) and ("SMINPUTS", (9,)) in cont:
                    exp["MVWm"] = float(cont[("SMINPUTS", (9,))]).hex()
                if fmt == "slha" and blk == "SMINPUTS" and key == (9,) and cont.get(("MASS", (24,))):
                    exp["MVWm"] = dfull["MVWm"]          # overridden by MASS[24] anyway
                if (fmt, blk, key) in VEV:
                    allowed |= {"vd", "vu"}
                if tr == "abs":
                    allowed |= {n for n in dd if n.startswith("ZN")}
            problems = []
            for n, e in sorted(exp.items()):
                if dd.get(n) != e and not (e is not None and n in dd and float.fromhex(dd[n]) == float.fromhex(e)):
                    problems.append("%s is %s, the default-constructed value is %s" % (n, _hx(dd.get(n)), _hx(e)))
            for n in sorted(n for n in set(dfull) | set(dd) if dfull.get(n) != dd.get(n) and n not in exp and n not in allowed):
                if n == "TB" and "vd" in allowed and ulps(float.fromhex(dfull[n]), float.fromhex(dd[n])) <= 4:
                    continue
                problems.append("%s changed %s -> %s although its key is still in the file" % (n, _hx(dfull.get(n)), _hx(dd.get(n))))
            if problems:
                fails.append((fkey, "%s input (%s): with %s removed: %s" % (fmt, rel, what, "; ".join(problems[:4])),
                              {"kind": "delete", "fmt": fmt}))
            else:
                ctx.nontrivial(("delete", fmt, blk, len(S)))
    stats["deletion_cases"] = ncase
    stats["blocks_without_documented_default"] = sorted(nodoc)
    stats["keys_without_any_default"] = sorted(required)


# ----------------------------------------------------------------------------- rejection clause
def rejection(ctx, pool, bases, stats, cap_tp):
    tasks, meta = [], []
    for name, fmt, text, is_ex in bases:
        f = M.parse(text)
        L = text.split("\n")[:-1]
        sites = []      # (line, token index, what)
        ql = M.last_hmix_scale(f)
        for bi, b in enumerate(f.blocks):
            if not M.block_is_read(f, fmt, b, ql):
                continue
            shape, scaled = M.READ[fmt][b.name]
            if b.q is not None and scaled:      # the scale of a block that does not depend on a scale is not read
                sites.append((b.hdr, 3, "%s:Q" % b.name))
            for li in b.data:
                e = M.entry(f.lines[li], shape)
                if not e:
                    continue
                if shape == "mat" and not all(1 <= k <= M.MATDIM[b.name] for k in e[0]):
                    continue     # entry outside the matrix: not read
                for ti in range(e[2]):
                    sites.append((li, ti, "%s:key" % b.name))
                sites.append((li, e[2], "%s:value" % b.name))
        if not is_ex:
            sites = thin(sites, cap_tp)
        texts = []
        for li, ti, what in sites:
            a, b_ = f.lines[li].spans[ti]
            for bad in BAD_TOKENS:
                texts.append("\n".join(L[:li] + [L[li][:a] + bad + L[li][b_:]] + L[li + 1:]) + "\n")
                meta.append((name, fmt, li, ti, what, bad))
        for i in range(0, len(texts), 48):
            tasks.append((fmt, texts[i:i + 48]))
    flat = []
    alltexts = [t for _, ts in tasks for t in ts]
    for r in pool.imap(_w_raw, tasks, chunksize=1):
        flat += r
    nrej = 0
    for (name, fmt, li, ti, what, bad), (rc, diag, num, head), txt in zip(meta, flat, alltexts):
        ctx.evals(1)
        nrej += 1
        ctx.nontrivial(("reject", fmt, what, bad))
        if rc != 1 or not diag or num:
            cls = {"abc": "text", "nan": "nan", "NaN": "nan", "inf": "inf", "-inf": "inf", "1e400": "overflow",
                   "1D3": "fortran-D"}.get(bad, "trailing-characters")
            ctx.fail("reject:%s:%s:%s" % (fmt, what, cls),
                     "%s line %d: token %r at the %s position is not a finite number but: exit %r, diagnostic %s, physics number on stdout %s (%s)"
                     % (name, li + 1, bad, what, rc, "present" if diag else "MISSING", "PRESENT" if num else "absent", head.strip()[:100]),
                     {"kind": "reject", "fmt": fmt, "text": txt, "token": bad, "line": li + 1})
    stats["bad_token_cases"] = nrej


def config_rejection(ctx, pool, stats):
    toolarge = {0: "5", 1: "3", 2: "2", 3: "2", 4: "2", 5: "2", 6: "2"}
    tasks, meta = [], []
    for fmt, fn in (("slha", "example.slha"), ("gm2calc", "example.gm2"), ("thdm", "example.thdm")):
        text = _nl(open(os.path.join(REPO, "input", fn)).read())
        f = M.parse(text)
        L = text.split("\n")[:-1]
        cb = [b for b in f.blocks if b.name == "GM2CALCCONFIG"][0]
        moved = "\n".join(L[:cb.hdr] + L[cb.end:] + L[cb.hdr:cb.end]) + "\n"       # config block last
        for layout, base in (("first", text), ("last", moved)):
            for key in range(7):
                for bad in ("-1", toolarge[key], "0.5", "1e300", "nan", "-0.5", "1.0000001", "2147483648"):
                    new, _ = set_value(base, fmt, "GM2CALCCONFIG", (key,), bad)
                    tasks.append((fmt, [new]))
                    meta.append((fmt, layout, key, bad, new))
    res = pool.map(_w_raw, tasks)
    for (fmt, layout, key, bad, new), ((rc, diag, num, head),) in zip(meta, res):
        ctx.evals(1)
        ctx.nontrivial(("config", fmt, key, bad))
        if rc != 1 or not diag or num:
            ctx.fail("config:%s:GM2CalcConfig[%d]=%s" % (fmt, key, bad),
                     "%s input, GM2CalcConfig[%d] = %s (block %s in file) is not an allowed value but: exit %r, diagnostic %s, physics number %s (%s)"
                     % (fmt, key, bad, layout, rc, "present" if diag else "MISSING", "PRESENT" if num else "absent", head.strip()[:100]),
                     {"kind": "reject", "fmt": fmt, "text": new, "token": bad, "line": 0})
    stats["config_cases"] = len(meta)


# ----------------------------------------------------------------------------- driver
def run(ctx):
    build.ensure("plain")
    cli = build.cli("plain")
    mirror = build.harness("cli_mirror", "plain", ["cli_mirror.cpp"])
    decoys = make_decoys()
    _winit(cli, mirror, decoys)
    bases = load_bases()
    stats = {"states": 0, "transitions": 0, "merged": 0, "dropped_by_model": {}, "per_op": {}}
    # model self-check: content(canon(content)) is a fixed point on every base
    for name, fmt, text, _ in bases:
        c = M.content(text, fmt)
        if M.content(M.canon(c), fmt) != c:
            raise InfraError("reader model: canon/content not a fixed point on " + name)
    deep_tp = ["test_points/problems_hmix_scale.in", "test_points/thdm_gauge-basis.in",
               "test_points/problems_funcs_M1_zero.in", "test_points/problems_bug_smuon_mixing.in"]
    with mp.Pool(min(16, os.cpu_count() or 4), initializer=_winit, initargs=(cli, mirror, decoys)) as pool:
        kfails = []
        key_tables(ctx, stats, kfails)
        for k, what, data in kfails:
            ctx.fail(k, what, data)
        dfails = []
        deletions(ctx, stats, dfails, pool.map)
        for k, what, data in dfails:
            ctx.fail(k, what, data)
        aliases(ctx, pool, stats)
        last_wins(ctx, pool, stats)
        scale_family(ctx, pool, stats)
        isolated = isolation(ctx, pool, bases, stats)
        if not isolated:
            # already reported above; the BFS then compares one-content batches only, to keep its verdicts about rewrites
            ctx.note("bfs_decoys", "off: reader state survives between files (see isolation failures)")
        config_rejection(ctx, pool, stats)
        if ctx.quick:
            deep_tp = deep_tp[:2]
        rejection(ctx, pool, bases if not ctx.quick else [b for b in bases if b[3] or b[0] in deep_tp],
                  stats, 12 if ctx.quick else None)
        nb = {}
        for base in bases:
            name, fmt, text, is_ex = base
            if ctx.out_of_time("bfs"):
                break
            if is_ex:
                # depth 1: every position of every operator; deeper: representative positions
                depth = 2 if ctx.quick else 3
                caps = {1: None, 2: 2 if ctx.quick else 3, 3: 1}
                k1s = {1: 1 if ctx.quick else 3, 2: 1}
            elif name in deep_tp:
                depth = 2
                caps = {1: 6 if ctx.quick else 40, 2: 1 if ctx.quick else 2}
                k1s = {1: 1}
            else:
                depth = 1
                caps = {1: 2 if ctx.quick else 24}
                k1s = {}
            nb[name] = bfs(ctx, pool, base, depth, caps, k1s, stats, decoy=isolated)
    unconditional = {op: n for op, n in stats["dropped_by_model"].items() if n and op not in ("R1", "R2", "R11", "R13", "R8", "R12", "R14")}
    ctx.note("states_per_base", {k: v for k, v in sorted(nb.items()) if k.startswith("input/") or k in deep_tp})
    ctx.note("bases", len(bases))
    ctx.note("candidates_dropped_because_model_says_content_changes", stats["dropped_by_model"])
    ctx.note("new_states_per_operator", dict(sorted(stats["per_op"].items())))
    ctx.note("states_merged_same_text", stats["merged"])
    for k in ("deletion_cases", "blocks_without_documented_default", "keys_without_any_default", "alias_cases", "alias_outcomes", "lastwins_cases"):
        ctx.note(k, stats.get(k, 0))
    for k in ("scale_cases", "keys_perturbed", "bad_token_cases", "config_cases", "isolation_sequences",
              "isolation_files_compared", "isolation_rewritten_states"):
        ctx.note(k, stats.get(k, 0))
    if unconditional:
        raise InfraError("operators that preserve content by construction were rejected by the model: %r" % unconditional)
    ctx.assumptions += [
        "reader model (oracle/slha_model.py) transcribes README tables and the statement; it is validated against the "
        "implementation in every state (content equality predicted => program result compared)",
        "depth >= 2 explores representative positions only (first/middle/last per operator variant), depth 1 all positions "
        "on the shipped examples; test points use strided positions",
        "layouts the statement does not promise are not generated: Q=1000 without blank, lower-case q=, hex floats, CR line ends, "
        "respelled integer keys"]
    return ctx.finish(
        "states = distinct file texts reached from a base input by sequences of rewrite operators R1..R13 "
        "(block swap | rotate/reverse | keyword+name case | comment line/indented/trailing/adjacent | blank/whitespace line | "
        "indentation and inter-token whitespace | number respelling with identical decimal value | earlier duplicate entry with "
        "another value in same block / top of block / earlier duplicate block | foreign blocks | unknown keys | same MSSM block "
        "at another Q | block split | adjacent data lines swapped); 3 shipped examples: depth 1 = every position of every operator "
        "variant, depth 2 = from %s representative state(s) (first/middle/last position) per operator variant, %s positions per variant, "
        "%s; %d test points: depth 1 with %d evenly strided positions per variant, %d of them to depth 2; sequences leading to the same "
        "text merged; a candidate is kept iff the reader model says content(rewritten)==content(original) (dropped ones counted); "
        "every BFS state is read by the reader harness in a process that has read three other files first and compared with "
        "a base read in a process of its own; plus file sequences in ONE process (scale family A,B / A,B,A / multi-scale, the "
        "three formats in all orders, test points alternating, rewritten states between foreign files) with a fresh and with "
        "one re-used GM2_slha_io, each dump compared bitwise with a one-file process; "
        "last assignment wins for every value: each documented key assigned twice (one block / two blocks) with (first,last) in "
        "{(x,0),(0,x),(x,-0.0),(x,default),(default,x),(x,1e-300),(x,x)} compared with the file carrying only the last value; "
        "key aliasing: for every documented key (both indices of matrix entries) an extra line with key token k+2^32, k+-2^31, "
        "k-2^32, k+2^63, k+2^64, k+2^16, k+256, -k, k+NUL (must be rejected or ignored) and k.0, k., ke0 (may also act as k) before / "
        "after / instead of the genuine line, scale-dependent blocks at Q+2^32, Q+2^31, Q+2^64, -Q; R7 also respells keys as +k, 00k; "
        "R14 = scale-dependent block split in two pieces (all key distributions for <=4 keys, else each key isolated "
        "first/last) x the same block at another Q before/between/after the pieces; deletions: every subset of GM2CalcConfig / "
        "VCKMIN entries absent == default (0) written explicitly, MASS[24] absent == SMINPUTS[9], every single and pair of "
        "documented keys of a block removed => parameter has the default-constructed value and nothing else changes; "
        "plus the multi-scale family (72 layouts + split x other-scale layouts), one perturbation per documented key, 12 bad tokens at every key/value/Q position of the blocks "
        "that are read (quick: examples + 2 test points with 12 positions), 8 invalid values per GM2CalcConfig entry; "
        "distinct = (format, depth, operator, variant) on bases that print a number, documented keys, (block, position kind, bad token), "
        "scale layouts" % ((("1", "2", "no depth 3") if ctx.quick else
                            ("3", "3", "depth 3 = from 1 state per pair of operator variants, 1 (middle) position per variant"))
                           + (len(bases) - 3, 2 if ctx.quick else 24, len(deep_tp))),
        {"states": stats["states"], "transitions": stats["transitions"],
         "traces_validated_against_impl": ctx.cov["evaluations"]})


def replay(ctx, path):
    build.ensure("plain")
    _winit(build.cli("plain"), build.harness("cli_mirror", "plain", ["cli_mirror.cpp"]), make_decoys())
    rec = json.load(open(path))
    d = rec["data"]
    kind = d["kind"]
    if kind == "rewrite":
        fmt = d["fmt"]
        cont = M.content(d["original"], fmt)
        ofmt = out_format(fmt, cont)
        (a,), (b,) = evaluate(fmt, ofmt, [d["original"]]), evaluate(fmt, ofmt, [d["rewritten"]], decoy=True)
        print("replay: original  exit %r stdout %s" % (a[0], _short(a[1])))
        print("replay: rewritten exit %r stdout %s   (%s)" % (b[0], _short(b[1]), d.get("seq") or d.get("base")))
        if (a[0], a[1]) != (b[0], b[1]) or a[3] != b[3]:
            if a[3] != b[3]:
                print("replay: reader parameters differ: " + _dump_diff(a[3], b[3]))
            print("VIOLATION property=C13 replay=%s" % path)
            return 1
        print("replay: holds now")
        return 0
    if kind == "alias":
        fmt = d["fmt"]
        ofmt = out_format(fmt, M.content(d["reference"], fmt))
        texts = [d["text"], d["reference"]] + ([d["as_k"]] if d.get("as_k") else [])
        rs = evaluate(fmt, ofmt, texts)
        r, ref = rs[0], rs[1]
        ignored = (r[0], r[1], r[3]) == (ref[0], ref[1], ref[3])
        rejected = r[0] == 1 and r[2] and not _obs_has_number(ofmt, r[1]) and "EXC" in parse_dump(r[3])
        same = len(rs) > 2 and (r[0], r[1], r[3]) == (rs[2][0], rs[2][1], rs[2][3])
        print("replay: alias line: exit %r stdout %s; ignored=%s rejected=%s as-k=%s" % (r[0], _short(r[1]), ignored, rejected, same))
        if not (ignored or rejected or same):
            print("VIOLATION property=C13 replay=%s" % path)
            return 1
        print("replay: holds now")
        return 0
    if kind == "delete":
        dfails = []
        deletions(ctx, {}, dfails, lambda fn, xs: [fn(x) for x in xs])
        bad = [v for v in dfails if v[0] == rec["key"]]
        for k, what, _ in bad:
            print("replay: " + what)
        if bad:
            print("VIOLATION property=C13 replay=%s" % path)
            return 1
        print("replay: holds now")
        return 0
    if kind == "isolation":
        items = [tuple(x) for x in d["items"]]
        seqd = run_mirror(items, d["cmd"])[d["index"]]
        alone = run_mirror([items[d["index"]]], "F")[0]
        print("replay: %s file %s after %s in one process (%s)" % (items[-1][0], d["labels"][-1], d["labels"][:-1], d["cmd"]))
        if seqd != alone:
            print("replay: differs from a process of its own: " + _dump_diff(alone, seqd))
            print("VIOLATION property=C13 replay=%s" % path)
            return 1
        print("replay: holds now")
        return 0
    if kind == "reject":
        (rc, diag, num, head), = _w_raw((d["fmt"], [d["text"]]))
        print("replay: token %r line %s: exit %r diagnostic %s number %s (%s)" % (d["token"], d["line"], rc, diag, num, head.strip()[:120]))
        if rc != 1 or not diag or num:
            print("VIOLATION property=C13 replay=%s" % path)
            return 1
        print("replay: holds now")
        return 0
    if kind == "keytable":
        kfails = []      # run the key-table pass alone and report whether this key still fails
        key_tables(ctx, {}, kfails)
        bad = [v for v in kfails if v[0] == rec["key"]]
        for k, what, _ in bad:
            print("replay: " + what)
        if bad:
            print("VIOLATION property=C13 replay=%s" % path)
            return 1
        print("replay: holds now")
        return 0
    raise InfraError("unknown replay kind %r" % kind)
