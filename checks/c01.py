"""C01 - one-variable loop and special functions equal their definitions.

Regime-graph exploration: for every function the domain is covered by a log
lattice + literals harvested from the anchored sources + small rationals; along
that line, neighbouring seeds with different branch-path signatures (sancov)
are bisected to adjacent doubles and all doubles within +-W ulp of each
boundary are evaluated.  Every evaluated double is compared with the mpmath
definition (oracle/ff_ref.py)."""
import math
import multiprocessing as mp
import os
import sys

import fxrun
import harvest
from core import hexf

sys.path.insert(0, os.path.join(os.path.dirname(os.path.dirname(os.path.abspath(__file__))), "oracle"))

META = dict(
    level="model_checking",
    technique="regime-graph exploration: exhaustive lattice + branch-path-signature bisection to adjacent doubles, mpmath definition oracle on every evaluated double",
    text="Every one-argument function is evaluated on a finite cover of its domain (log lattice, literals harvested from the source, rationals) and, around every change of evaluation regime located by bisecting sancov branch-path signatures down to adjacent doubles, on all doubles within +-W ulp on both sides; each value is compared with an independent >=50-digit mpmath transcription of the defining formula. Exhaustive within lattice density K and ulp width W; says nothing about doubles strictly between lattice points inside one regime.",
    note="trusted: mpmath polylog/clsin/log, clang sancov instrumentation (only used to locate boundaries, never compared to a baseline), tolerance rule of DESIGN 2.4",
    design_ref="3/C01")

HARNESSES = [(("fx", "cov", ["fx.cpp"]), {})]

LOOPF = ["F1C", "F2C", "F3C", "F4C", "F1N", "F2N", "F3N", "F4N", "G3", "G4",
         "f_PS", "f_S", "f_sferm", "f_CSl", "F1", "F1t", "F2", "F3"]
SPECIAL = ["dilog", "clausen_2"]
ANCHORS = ["src/gm2_ffunctions.cpp", "src/gm2_dilog.cpp", "src/gm2_numerics.hpp"]
TOL = {f: 1e-7 for f in LOOPF}
TOL.update({"dilog": 1e-13, "clausen_2": 1e-13, "dilogc": 1e-13})
CL2MAX = 1.0149416064096537
# documented values at exactly 0 (limit where finite, 0 by convention otherwise);
# F3C, G3, G4, F2, F3 have no documented value at 0 and are not claimed there.
AT0 = {"F1C": 4.0, "F2C": 0.0, "F4C": 0.0, "F1N": 2.0, "F2N": 3.0, "F3N": 8.0 / 105.0,
       "F4N": -0.75 * (math.pi ** 2 - 9.0), "f_PS": 0.0, "f_S": 0.0, "f_sferm": 0.0,
       "f_CSl": 0.0, "F1": 0.0, "F1t": 0.0, "dilog": 0.0, "clausen_2": 0.0}
# known-finding classes: accuracy loss through cancellation at large argument
DOC1 = {"F1C", "F2C", "F3C", "F4C", "F1N", "F2N", "F3N", "F4N", "G3", "G4"}
DOCQ = {"f_PS", "F1", "F1t", "F2", "F3"}
LARGE = {}     # (the large-argument cancellation findings were repaired in /repo; no class is excused any more)


def key_for(fn, x):
    if fn in LARGE:
        return "%s:x>=%g" % (fn, LARGE[fn]) if x >= LARGE[fn] else "%s:x<%g" % (fn, LARGE[fn])
    return fn


def _check_chunk(chunk):
    """returns (fails, maxerr) ; fails: (fn, args, outs, ref, err, allowed, kind)"""
    import mpmath
    from mpmath import mpf
    import ff_ref
    fails, worst = [], {}
    for fn, args, outs in chunk:
        try:
            if fn == "dilogc":
                re_, im_ = args
                with ff_ref.prec(60):
                    rr, ri = ff_ref.dilogc(mpf(re_), mpf(im_))
                    refabs = mpmath.sqrt(rr * rr + ri * ri)
                    if not (math.isfinite(outs[0]) and math.isfinite(outs[1])):
                        fails.append((fn, args, outs, (float(rr), float(ri)), float("inf"), 0.0, "nonfinite"))
                        continue
                    err = mpmath.sqrt((mpf(outs[0]) - rr) ** 2 + (mpf(outs[1]) - ri) ** 2)
                    # |z dLi2/dz| = |log(1-z)| : inherited from rounding of the argument
                    z = mpmath.mpc(re_, im_)
                    cond = 16 * mpf(2) ** -53 * abs(mpmath.log(1 - z)) if z != 1 else 0
                    allowed = TOL[fn] * refabs + cond
                    rel = float(err / refabs) if refabs != 0 else float(err)
                    worst[fn] = max(worst.get(fn, 0.0), rel if err > cond else 0.0)
                    if err > allowed:
                        fails.append((fn, args, outs, (float(rr), float(ri)), float(err), float(allowed), "accuracy"))
                continue
            x, y = args[0], outs[0]
            if fn in LOOPF and not (x == 0 or 1e-14 <= x <= 1e12 or -1e12 <= x < 0):
                continue      # outside the quantifier's domain (positive denormals .. 1e-14)
            if x < 0 and fn in LOOPF:
                if not math.isnan(y):
                    # "a negative argument yields NaN": every negative double, also inside the is_zero window
                    fails.append((fn, args, outs, "nan", 0.0, 0.0, "negative-not-nan" + (":|x|<2.3e-15" if x > -2.3e-15 else "")))
                continue
            if x == 0:
                if fn in AT0:
                    ref = AT0[fn]
                    if not (y == ref or abs(y - ref) <= 4 * 2.0 ** -52 * abs(ref)):
                        fails.append((fn, args, outs, ref, abs(y - ref), 0.0, "value-at-0"))
                continue
            if fn == "clausen_2" and abs(x) > 1e15:
                if not (math.isfinite(y) and abs(y) <= CL2MAX * (1 + 1e-13)):
                    fails.append((fn, args, outs, "bounded", abs(y), CL2MAX, "cl2-range"))
                continue
            if fn == "clausen_2":
                with ff_ref.prec(50 + int(math.log10(abs(x) + 1)) + 5):
                    ref = +ff_ref.clausen_2(mpf(x))
            else:
                ref = ff_ref.ref1(fn, x)
            if not math.isfinite(y):
                fails.append((fn, args, outs, float(ref), float("inf"), 0.0, "nonfinite"))
                continue
            err = abs(mpf(y) - ref)
            tol = TOL[fn]
            if (x == 1.0 and fn in DOC1) or (x == 0.25 and fn in DOCQ):
                tol = 4 * 2.0 ** -52      # documented values at 1/4 and 1
            allowed = tol * abs(ref) + mpf(2) ** -1073   # + one denormal ulp of the result
            rel = float(err / abs(ref)) if ref != 0 else float(err)
            if err > allowed and fn == "clausen_2":
                # The argument is an exact double, so inside the first period nothing is inherited from the
                # argument: pure 1e-13.  Beyond it every double-precision implementation reduces by a rounded
                # 2 pi: k periods shift the argument by k |2 pi - fl(2 pi)| = k 2.45e-16 (x2 margin), plus one
                # rounding of the reduced argument; that error times |Cl2'| = |log|2 sin(x/2)|| is allowed.
                with ff_ref.prec(60):
                    k = int(abs(mpf(x)) / (2 * mpmath.pi))
                    d = -mpmath.log(abs(2 * mpmath.sin(mpf(x) / 2)))
                    cond = (2 * k * mpf("2.45e-16") + mpf("4.5e-16")) * abs(d) if k >= 1 else 0
                    xr = abs(mpf(x)) - 2 * k * mpmath.pi          # reduced argument in [0, 2 pi)
                    where = "at-fl(2pi)" if abs(x) == 6.283185307179586 else "near-0" if xr < 1 else "near-pi" if abs(xr - mpmath.pi) <= 1 else "near-2pi" if xr > 2 * mpmath.pi - 1 else "mid"
                    # size class: the error expressed as an error of the argument (err / |Cl2'|)
                    ae = err / abs(d) if d != 0 else mpf(1)
                    cls = "argerr<1e-18" if ae < mpf("1e-18") else "argerr<1e-15" if ae < mpf("1e-15") else "argerr<1e-12" if ae < mpf("1e-12") else "argerr>=1e-12"
                if err > allowed + cond:
                    fails.append((fn, args, outs, float(ref), float(err), float(allowed + cond),
                                  "accuracy:%s:%s:%s" % ("first-period" if k == 0 else "|x|>=2pi", where, cls)))
                rel = 0.0
            elif err > allowed:
                # error inherited from rounding the argument: 16 ulp * |x f'(x)|
                with ff_ref.prec(60):
                    f = ff_ref.ONE_ARG[fn]
                    if fn == "dilog":
                        d = -mpmath.log(abs(1 - mpf(x))) / mpf(x)
                    else:
                        h = mpf(x) * mpf(2) ** -30
                        d = (f(mpf(x) + h) - f(mpf(x) - h)) / (2 * h)
                    cond = 16 * mpf(2) ** -53 * abs(mpf(x) * d)
                allowed = allowed + cond
                if err > allowed:
                    fails.append((fn, args, outs, float(ref), float(err), float(allowed), "accuracy"))
                rel = 0.0
            worst[fn] = max(worst.get(fn, 0.0), rel)
        except Exception as e:  # oracle failure is an infrastructure problem, reported loudly
            fails.append((fn, args, outs, "oracle-exception:%r" % (e,), 0.0, 0.0, "oracle"))
    return fails, worst


def seeds_for(fn, K, W, kstep, lits):
    if fn in LOOPF:
        s = set(harvest.loglattice(K, -14, 12)) | {0.0, 0.25, 1.0}
        for v in lits:
            if 1e-14 <= v <= 1e12:
                s.update(harvest.ulps(v, 2))
                s.update(harvest.rel_offsets(v, kstep=kstep))
        s = {v for v in s if v == 0 or 1e-14 <= v <= 1e12}
        # negatives: mirrored decade lattice, and the window below the is_zero threshold (10 eps = 2.2e-15) down to
        # the smallest denormal
        s.update(-v for v in harvest.loglattice(min(K, 4), -14, 12))
        s.update(-v for v in harvest.loglattice(1, -323, -15))
        s.update(-v for v in harvest.ulps(10 * 2.220446049250313e-16, 2))
        s.update((-5e-324, -2.2250738585072014e-308, -1e-15, -2.2e-15, -2.3e-15, -3e-15))
        return sorted(s)
    # dilog / clausen: all finite reals
    s = {0.0}
    for v in harvest.loglattice(K, -14, 12) + harvest.loglattice(1, 13, 300):
        s.update((v, -v))
    for v in lits:
        s.update(harvest.ulps(v, 2)); s.update(harvest.ulps(-v, 2))
        s.update(harvest.rel_offsets(v, kstep=kstep))
    if fn == "clausen_2":
        for k in range(1, 65):
            s.update(harvest.ulps(k * math.pi / 2, min(W, 8)))
            s.update(harvest.ulps(-k * math.pi / 2, 2))
        # both sides of the zeros of Cl2 at pi, 2 pi, ... at relative distances 2^-k (the reflections there
        # are exact only if pi is carried to more than double precision)
        for k in (1, 2, 3, 4, 7):
            for v in harvest.rel_offsets(k * math.pi, kstep=kstep):
                s.update((v, -v))
    else:
        for v in (-1.0, 0.5, 1.0, 2.0):
            s.update(harvest.ulps(v, min(W, 8)))
    return sorted(s)


def complex_seeds(K, nang):
    pts = set()
    radii = harvest.loglattice(K, -12, 8)
    for k in range(nang):
        th = 2 * math.pi * k / nang
        c, s = math.cos(th), math.sin(th)
        if k == 0: c, s = 1.0, 0.0
        if 2 * k == nang: c, s = -1.0, 0.0
        if 4 * k == nang: c, s = 0.0, 1.0
        if 4 * k == 3 * nang: c, s = 0.0, -1.0
        for r in radii:
            pts.add((r * c, r * s))
    # regime lines of the complex algorithm: Re z = 1/2, |z| = 1, |z|^2 = 2 Re z, +- ulp
    for t in harvest.loglattice(max(2, K // 2), -6, 3):
        for im in (t, -t):
            for re_ in harvest.ulps(0.5, 1):
                pts.add((re_, im))
    for k in range(1, 4 * nang):
        th = 2 * math.pi * k / (4 * nang)
        for r in harvest.ulps(1.0, 1):
            pts.add((r * math.cos(th), r * math.sin(th)))
        # circle |z-1| = 1  <=> |z|^2 = 2 Re z
        for r in harvest.ulps(1.0, 1):
            pts.add((1 + r * math.cos(th), r * math.sin(th)))
    for re_ in [-1e8, -3.0, -1.0, -0.3, 0.0, 0.3, 0.5, 1.0, 1.0000000000000002, 1.5, 2.0, 7.0, 1e8]:
        pts.add((re_, 0.0)); pts.add((re_, 1e-300)); pts.add((re_, -1e-300)); pts.add((re_, 5e-324))
    return sorted(p for p in pts if math.hypot(*p) <= 1e8)


def run(ctx):
    K, W, kstep = (8, 8, 8) if ctx.quick else (32, 32, 4)
    nargs = fxrun.functions()
    lits = sorted(set(harvest.literals(ANCHORS, 1e-14, 1e12)) | set(harvest.rationals()))
    ctx.note("harvested_literals", len(lits))
    cmds = []
    for fn in LOOPF + SPECIAL:
        sd = seeds_for(fn, K, W, kstep, lits)
        if fn == "clausen_2":
            # periodic: regime boundaries are refined for |x| <= 8 pi only; beyond that the
            # seeds (decade lattice, k pi/2 +- ulp) are evaluated as points
            lim = 8 * math.pi
            cmds.append(fxrun.cmd_pts(fn, [(v,) for v in sd if abs(v) > lim]))
            sd = [v for v in sd if abs(v) <= lim]
        cmds.append(fxrun.cmd_line(fn, W, [0.0], [1.0], sd))
    cz = complex_seeds(4 if ctx.quick else 12, 48 if ctx.quick else 192)
    cmds.append(fxrun.cmd_pts("dilogc", cz))
    # radial refinement of complex dilog at a few fixed arguments
    for th in ([0.3, 2.0, -2.5] if ctx.quick else [0.1 * k for k in range(-31, 32, 3)]):
        cmds.append(fxrun.cmd_line("dilogc", W, [0.0, 0.0], [math.cos(th), math.sin(th)],
                                   harvest.loglattice(K, -12, 8)))
    res = fxrun.run_cmds(cmds, nargs)

    tasks, states, nbd, maxjump = [], set(), 0, {}
    per_fn_regimes = {}
    for (fn, _), (pts, bds, caps) in zip(cmds, res):
        for c in caps:
            ctx.cap("%s:%s" % (fn, c))
        nbd += len(bds)
        per_fn_regimes.setdefault(fn, set())
        seen = set()
        for p in pts:
            states.add((fn, p.sig)); per_fn_regimes[fn].add(p.sig)
            if (p.args) in seen:
                continue
            seen.add(p.args)
            tasks.append((fn, p.args, p.outs))
        # continuity across each located boundary (reported, decided by accuracy on both sides)
        byt = {p.t: p for p in pts}
        for a, b, sa, sb in bds:
            pa, pb = byt.get(a), byt.get(b)
            if pa and pb and fn != "dilogc":
                ya, yb = pa.outs[0], pb.outs[0]
                if math.isfinite(ya) and math.isfinite(yb) and max(abs(ya), abs(yb)) > 0:
                    j = abs(ya - yb) / max(abs(ya), abs(yb))
                    maxjump[fn] = max(maxjump.get(fn, 0.0), j)
                    if a >= 1e-14 and j > 2 * TOL[fn] and not (fn in LARGE and a >= LARGE[fn]) \
                            and not (fn in ("dilog", "clausen_2")):
                        ctx.fail(key_for(fn, a) + ":jump", "%s jumps by rel %.2e across regime boundary %r|%r"
                                 % (fn, j, a, b), {"fn": fn, "a": hexf(a), "b": hexf(b)})
    ctx.evals(len(tasks))
    chunks = [tasks[i:i + 150] for i in range(0, len(tasks), 150)]
    worst = {}
    with mp.Pool(min(16, os.cpu_count() or 4)) as pool:
        for fails, w in pool.imap_unordered(_check_chunk, chunks):
            for k, v in w.items():
                worst[k] = max(worst.get(k, 0.0), v)
            for fn, args, outs, ref, err, allowed, kind in fails:
                if kind == "oracle":
                    raise RuntimeError("oracle failed on %s%r: %s" % (fn, args, ref))
                x = args[0]
                key = key_for(fn, x) + kind[len("accuracy"):] if kind.startswith("accuracy") else "%s:%s" % (fn, kind)
                ctx.fail(key, "%s(%s) = %r, definition gives %r (|err| %.3e > allowed %.3e) [%s]"
                         % (fn, ", ".join(repr(a) for a in args), outs, ref, err, allowed, kind),
                         {"fn": fn, "args": [hexf(a) for a in args], "outs": [hexf(o) for o in outs], "kind": kind})
    for s in states:
        ctx.nontrivial(s)
    ctx.sample({"fn": "F1C", "regimes": len(per_fn_regimes.get("F1C", ())),
                "example_points": [t[1][0] for t in tasks[:5]]})
    ctx.sample({"boundaries_first": [(c[0], r[1][:3]) for c, r in zip(cmds, res) if r[1]][:4]})
    ctx.assumptions += [
        "mpmath (pure python) polylog/clsin/log at >=50 digits is the definition oracle",
        "values strictly between lattice points inside one regime are not evaluated",
        "positive arguments below 1e-14 (denormals .. 1e-14) are outside the quantifier"]
    return ctx.finish(
        "seeds: log lattice K=%d/decade on [1e-14,1e12] + {0,1/4,1} + source literals/rationals with ulp and 1+-2^-k offsets; "
        "signature-bisected regime boundaries with +-%d ulp neighbourhoods; distinct = (function, branch-path signature)" % (K, W),
        {"states": len(states), "transitions": nbd, "traces_validated_against_impl": len(tasks),
         "regimes_per_function": {k: len(v) for k, v in sorted(per_fn_regimes.items())},
         "worst_rel_err_outside_known": {k: float("%.3g" % v) for k, v in sorted(worst.items())},
         "max_rel_jump_at_boundary": {k: float("%.3g" % v) for k, v in sorted(maxjump.items())},
         "boundaries": nbd, "K": K, "W": W})


def replay(ctx, path):
    import json
    d = json.load(open(path))["data"]
    from core import unhex
    nargs = fxrun.functions()
    fn = d["fn"]
    args = tuple(unhex(a) for a in d["args"])
    (pts, _, _), = fxrun.run_cmds([fxrun.cmd_pts(fn, [args])], nargs)
    fails, _ = _check_chunk([(fn, pts[0].args, pts[0].outs)])
    for f in fails:
        print("replay: %s%r -> %r ref %r err %.3e allowed %.3e [%s]" % (f[0], f[1], f[2], f[3], f[4], f[5], f[6]))
        print("VIOLATION property=C01 replay=%s" % path)
        return 1
    print("replay: holds now: %s%r -> %r" % (fn, args, pts[0].outs))
    return 0
