"""C11 - no spurious singularities: a_mu finite and continuous across mass degeneracies.

Path explorer: for every base point, every moving mass (THDM: an input; MSSM: an input, or
a derived mass steered through its controlling input by bisection on doubles) and every
coincidence target m0 built from the other masses of the point (m_j, m_j+m_k, |m_j-m_k|,
2 m_j, m_j/2) the model is evaluated at m0 (1+d), d in {0, +-1e-13 .. +-1e-3}: every
contribution must be finite, and lie within 1 % of the straight line through the d = -+1e-3
values (paths changing by more than 20 % are outside the property).  In addition every
moving-mass line is refined with branch-path signatures (sancov) to adjacent doubles, which
finds the code's own is_equal_rel / shift windows; both sides (+-W ulp) must be finite and
may not jump by more than 1 %."""
import itertools
import math
import os
import subprocess
from concurrent.futures import ThreadPoolExecutor

import build
from core import InfraError, hexf, unhex

META = dict(
    level="model_checking",
    technique="exhaustive enumeration of coincidence configurations x offset ladder on one-parameter mass paths, plus branch-path-signature bisection of every path to adjacent doubles; chord/finite oracle on the real code",
    text="All coincidence targets m0 in {m_j, m_j+-m_k, 2 m_j, m_j/2} of every moving mass of every base point (THDM mass basis, all Yukawa types; MSSM on-shell input incl. derived masses hit by bisection) are crossed with d in {0,+-1e-13..+-1e-3}; all contributions and uncertainties must be finite and stay within 1 % of the chord. Regime boundaries of the code along each path are located by signature bisection and checked at +-W ulp. Exhaustive over the stated base points, targets and offsets; other base points are not covered.",
    note="trusted: sancov signatures only steer where to look; oracle is finiteness + chord band on the implementation itself; base points fixed in the check",
    design_ref="3/C11")
HARNESSES = [(("degen", "cov", ["degen.cpp"]), {})]

OFFS = [0.0] + [s * 10.0 ** -k for k in range(13, 2, -1) for s in (1, -1)]
TH_NAMES = ["1L", "2L", "2LF", "2LB", "unc0", "unc1", "unc2"]
TH_MASS = ["mh", "mH", "mA", "mHp", "mW", "mZ", "mhSM", "mt", "mb", "mtau", "mmu"]
MS_NAMES = ["1L", "2L", "2LFSf", "2LphotChipm", "2LphotChi0", "2LaSferm", "2LaCha", "unc0", "unc1", "unc2", "1Lchi0", "1Lchipm"]
MS_MASS = ["MChi1", "MChi2", "MChi3", "MChi4", "MCha1", "MCha2", "MSm1", "MSm2", "MSvm", "MSt1", "MSt2", "MSb1", "MSb2",
           "MStau1", "MStau2", "Mh", "MH", "MA", "MHpm", "MZ", "MW", "Q"]
MS_PAR = ["tb", "mu", "M1", "M2", "M3", "MA", "mL1", "mL2", "mL3", "mE1", "mE2", "mE3", "mQ1", "mQ2", "mQ3", "mU1", "mU2", "mU3",
          "mD1", "mD2", "mD3", "Amu", "Atau", "At", "Ab", "Q"]

# mh mH mA mHp sba l6 l7 tb m122
TH_BASE = {
    "A": [125.0, 400.0, 420.0, 440.0, 0.995, 0.2, 0.1, 3.0, 40000.0],
    "B": [125.0, 300.0, 500.0, 200.0, 0.9, 0.0, 0.0, 10.0, 8000.0],
    "C": [95.0, 125.09, 80.0, 150.0, 0.3, -0.1, 0.3, 1.5, 2000.0],
    "D": [125.0, 1500.0, 1450.0, 1550.0, 1.0, 0.0, 0.0, 40.0, 56000.0],
}
MS_BASE = {
    "ex": [10, 350, 150, 300, 1000, 1500, 500, 510, 520, 480, 490, 495, 600, 610, 620, 590, 595, 605, 580, 585, 615, 0, 0, 0, 0, 454.7],
    "neg": [40, -420, 210, -390, 1100, 700, 380, 356, 350, 230, 225, 218, 1007, 1006, 929, 969, 968, 800, 965, 964, 960, -294, -292, -871, -1283, 866],
    "hvy": [20, 1300, 900, 1100, 2500, 2000, 700, 650, 720, 1000, 950, 980, 3000, 3100, 2500, 2900, 2950, 2400, 3050, 3000, 2600, 500, 400, -2000, 1000, 1500],
}


def _run(exe, text, timeout=3000):
    p = subprocess.run([exe], input=text, stdout=subprocess.PIPE, stderr=subprocess.DEVNULL, text=True, timeout=timeout)
    if p.returncode != 0:
        raise InfraError("degen harness exit %d" % p.returncode)
    return p.stdout


def evaluate(exe, cases):
    """cases: list of (id, kind 'T'|'M', params) -> dict id -> (vals|None, exc|None, sig)"""
    n = 16
    chunks = [cases[i::n] for i in range(n)]

    def job(ch):
        if not ch:
            return {}
        txt = "\n".join("%s %s %s" % (k, cid, " ".join(hexf(float(x)) for x in p)) for cid, k, p in ch) + "\n"
        out = {}
        for ln in _run(exe, txt).split("\n"):
            tk = ln.split()
            if tk and tk[0] == "R":
                if tk[3] == "OK":
                    nv = int(tk[4])
                    out[tk[1]] = ([unhex(v) for v in tk[5:5 + nv]], None, tk[-1])
                else:
                    out[tk[1]] = (None, " ".join(tk[4:-2]), tk[-1])
        return out
    res = {}
    with ThreadPoolExecutor(n) as ex:
        for r in ex.map(job, chunks):
            res.update(r)
    if len(res) != len(cases):
        raise InfraError("degen harness answered %d of %d cases" % (len(res), len(cases)))
    return res


def targets(masses, names, moving, rich):
    """coincidence targets built from the other masses: label -> value"""
    oth = [(n, m) for n, m in zip(names, masses) if n != moving and m > 0]
    t = {}
    for n, m in oth:
        t["%s" % n] = m
        t["2*%s" % n] = 2 * m
        t["%s/2" % n] = m / 2
    if rich:
        for (n1, m1), (n2, m2) in itertools.combinations(oth, 2):
            t["%s+%s" % (n1, n2)] = m1 + m2
            if m1 != m2:
                t["|%s-%s|" % (n1, n2)] = abs(m1 - m2)
    return t


# contributions that are sums / absolute-value combinations of others: a failure of a part explains the total
DERIVED = {"THDM": {"2L": ["2LF", "2LB"], "unc0": ["1L", "2L", "2LF", "2LB"], "unc1": ["1L", "2L", "2LF", "2LB"], "unc2": ["1L", "2L", "2LF", "2LB"]},
           "MSSM": {"1L": ["1Lchi0", "1Lchipm"], "2L": ["2LFSf", "2LphotChipm", "2LphotChi0", "2LaSferm", "2LaCha"],
                    "unc0": ["1L", "1Lchi0", "1Lchipm"], "unc1": ["2L", "2LFSf", "2LphotChipm", "2LphotChi0", "2LaSferm", "2LaCha"], "unc2": ["2LaSferm", "2LaCha"]}}
# the uncertainties are built from absolute values of these signed quantities: a sign change inside the window
# is a kink of |x|, not a singularity
ABS_OF = {"THDM": {"unc0": ["1L", "2L"], "unc1": ["1L", "2L"], "unc2": ["1L", "2L"]},
          "MSSM": {"unc0": ["1L"], "unc1": ["2L", "2LaSferm", "2LaCha"], "unc2": ["2LaSferm", "2LaCha"]}}


def _quadratic_ok(vals, mag):
    """secondary smoothness test: least-squares parabola through the points with |d| >= 1e-4; all points must lie
    within 1 % of the magnitude of it.  Separates smooth curvature (a steep but regular dependence, e.g. close to a
    physical instability) from a numerical glitch, which moves single points."""
    import numpy as np
    outer = [(d, y) for d, y in vals.items() if y is not None and math.isfinite(y) and abs(d) >= 1e-4]
    if len(outer) < 4:
        return False
    A = np.array([[1.0, d / 1e-3, (d / 1e-3) ** 2] for d, _ in outer]); bvec = np.array([y for _, y in outer])
    coef, *_ = np.linalg.lstsq(A, bvec, rcond=None)
    for d, y in vals.items():
        if y is None or not math.isfinite(y):
            continue
        q = coef[0] + coef[1] * (d / 1e-3) + coef[2] * (d / 1e-3) ** 2
        if abs(y - q) > 0.01 * mag:
            return False
    return True


def _bucket(dev):
    for b, name in ((0.05, "dev<5%"), (0.5, "dev<50%"), (5.0, "dev<500%")):
        if dev < b:
            return name
    return "dev>=500%"


def chord_check(ctx, model, names, label_path, ys_by_d, data):
    """ys_by_d: dict d -> list of contribution values (or None if not evaluated)"""
    lo, hi = ys_by_d.get(-1e-3), ys_by_d.get(1e-3)
    failed = set()
    order = [n for n in names if n not in DERIVED[model]] + [n for n in names if n in DERIVED[model]]
    for cn in order:
        ci = names.index(cn)
        vals = {d: (v[ci] if v is not None else None) for d, v in ys_by_d.items()}
        explained = any(pn in failed for pn in DERIVED[model].get(cn, []))
        bad_nonfinite = [d for d, y in sorted(vals.items()) if y is not None and not math.isfinite(y)]
        if bad_nonfinite:
            failed.add(cn)
            if not explained:
                d = bad_nonfinite[0]
                ctx.fail("%s.%s:%s:nonfinite" % (model, cn, label_path), "%s %s = %r at relative distance d = %g on path %s" % (model, cn, vals[d], d, label_path),
                         dict(data, d=d, contribution=cn), max_per_key=1)
            continue
        if lo is None or hi is None:
            continue
        ym, yp = lo[ci], hi[ci]
        if not (math.isfinite(ym) and math.isfinite(yp)):
            continue
        mag = max(abs(ym), abs(yp))
        if mag == 0 or abs(yp - ym) > 0.2 * mag:
            continue          # outside the property: the contribution changes by more than 20 % across the window
        kink = False
        for sn in ABS_OF[model].get(cn, []):
            si = names.index(sn)
            sv = [v[si] for v in ys_by_d.values() if v is not None and math.isfinite(v[si])]
            if sv and min(sv) < 0 < max(sv):
                kink = True
        if kink:
            ctx.add("paths_skipped_abs_value_kink")
            continue
        ctx.nontrivial((model, cn, label_path.split(":")[-1]))
        worst, worst_d, worst_line = 0.0, None, None
        for d, y in sorted(vals.items()):
            if y is None or not math.isfinite(y) or abs(d) >= 1e-3:
                continue
            line = ym + (yp - ym) * (d + 1e-3) / 2e-3
            dev = abs(y - line) / mag
            if dev > worst:
                worst, worst_d, worst_line = dev, d, line
        if worst > 0.01:
            if _quadratic_ok(vals, mag):
                ctx.add("paths_off_chord_but_smooth_parabola")     # steep smooth dependence, no singularity
                continue
            failed.add(cn)
            if not explained:
                # the size class of the deviation is part of the key: a known finding covers only its own class
                ctx.fail("%s.%s:%s:%s" % (model, cn, label_path, _bucket(worst)),
                         "%s %s = %.6e at d = %g leaves the 1%% band around the chord (%.6e) through d = -+1e-3 (%.6e, %.6e) by %.3g of the magnitude and is not on a smooth parabola, path %s"
                         % (model, cn, vals[worst_d], worst_d, worst_line, ym, yp, worst, label_path), dict(data, d=worst_d, contribution=cn), max_per_key=1)
    return len(failed)


def run(ctx):
    exe = build.harness(*HARNESSES[0][0], **HARNESSES[0][1])
    rich = True     # sums and differences of the other masses are coincidence targets in both tiers
    W = 4 if ctx.quick else 16
    ncases = 0
    sigs = set()

    # ------------------------------------------------------------------ THDM ----------------
    types = [2, 5] if ctx.quick else [1, 2, 3, 4, 5, 6]
    runnings = [1] if ctx.quick else [0, 1]
    bases = ["A", "B", "C"] if ctx.quick else list(TH_BASE)
    cases, meta = [], {}
    base_res = evaluate(exe, [("b%s_%d" % (b, t), "T", TH_BASE[b] + [t, 125.09, 1]) for b in bases for t in types])
    for b in bases:
        for t in types:
            vals, exc, _ = base_res["b%s_%d" % (b, t)]
            if vals is None:
                raise InfraError("THDM base point %s type %d rejected: %s" % (b, t, exc))
            masses = vals[7:18]
            # the SM Higgs mass (SM::set_mh, index 10 of the harness parameters) is a moving mass like the four
            # THDM Higgs masses: "a mass equal to ... the SM Higgs mass" is reached from either side
            for mi, mov in ((0, "mh"), (1, "mH"), (2, "mA"), (3, "mHp"), (10, "mhSM")):
                for lab, m0 in sorted(targets(masses, TH_MASS, mov, rich).items()):
                    if not (1.0 <= m0 <= 1e4):      # down to the light fermion masses of the point (m_tau, m_b): 'two masses equal'
                        continue
                    if mov == "mh" and m0 * 1.001 > TH_BASE[b][1]:
                        continue
                    if mov == "mH" and m0 * 0.999 < TH_BASE[b][0]:
                        continue
                    for r in runnings:
                        for d in OFFS:
                            p = list(TH_BASE[b]) + [t, 125.09, r]; p[mi] = m0 * (1 + d)
                            cid = "t%d" % len(cases)
                            cases.append((cid, "T", p))
                            meta[cid] = (b, t, r, mov, lab + ("~light" if m0 < 10.0 else ""), d)
    res = evaluate(exe, cases)
    ncases += len(cases)
    groups = {}
    for cid, (b, t, r, mov, lab, d) in meta.items():
        groups.setdefault((b, t, r, mov, lab), {})[d] = res[cid]
    skipped = 0
    for (b, t, r, mov, lab), byd in sorted(groups.items()):
        ys = {}
        for d, (vals, exc, sig) in byd.items():
            sigs.add(("T", sig))
            ys[d] = vals[:7] if vals is not None else None
            if vals is None:
                skipped += 1
        chord_check(ctx, "THDM", TH_NAMES, "%s=%s" % (mov, lab), ys,
                    {"model": "THDM", "base": b, "ytype": t, "running": r, "moving": mov, "target": lab})
    th_sm_masses = base_res["b%s_%d" % (bases[0], types[0])][0][7 + 4:18]
    ctx.note("thdm_paths", len(groups))
    ctx.note("thdm_points_rejected_by_constructor", skipped)
    if groups:
        k = sorted(groups)[len(groups) // 2]
        ctx.sample({"thdm_path": {"base": k[0], "type": k[1], "running": k[2], "moving": k[3], "target": k[4], "offsets": len(OFFS)}})

    # ------------------------------------------------------------------ MSSM ----------------
    mbases = ["ex", "neg"] if ctx.quick else list(MS_BASE)
    base_res = evaluate(exe, [("m" + b, "M", MS_BASE[b]) for b in mbases])
    cases, meta = [], {}
    # (1) input-level coincidences: a dimensionful input p set to another input q (or 2q, q/2)
    dimful = ["mu", "M1", "M2", "M3", "MA", "mL2", "mE2", "mL3", "mE3", "mQ3", "mU3", "mD3", "Q"]
    for b in mbases:
        vals, exc, _ = base_res["m" + b]
        if vals is None:
            raise InfraError("MSSM base point %s rejected: %s" % (b, exc))
        P = MS_BASE[b]
        ext = {"MZ": 91.1876, "MW": 80.385, "mt": 173.34}
        for mov in dimful if not ctx.quick else ["mu", "M1", "M2", "MA", "mL2", "mE2", "mQ3", "mU3", "Q"]:
            pi = MS_PAR.index(mov)
            others = {q: abs(P[MS_PAR.index(q)]) for q in dimful if q != mov}
            others.update(ext)
            tg = {}
            for q, v in others.items():
                tg[q] = v
                if rich:
                    tg["2*" + q] = 2 * v; tg[q + "/2"] = v / 2
            for lab, m0 in sorted(tg.items()):
                if not (30 <= m0 <= 2e4):
                    continue
                sgn = -1.0 if P[pi] < 0 else 1.0
                for d in OFFS:
                    p = list(P); p[pi] = sgn * m0 * (1 + d)
                    cid = "i%d" % len(cases)
                    cases.append((cid, "M", p)); meta[cid] = (b, "in", mov, lab, d)
    # (2) mass-level coincidences: derived mass steered through its controlling input, solved by bisection
    control = [("M2", "MCha1"), ("M2", "MCha2"), ("M1", "MChi1"), ("mL2", "MSvm"), ("mE2", "MSm1"), ("mL2", "MSm2"),
               ("MA", "MH"), ("MA", "MHpm"), ("mQ3", "MSt2"), ("mU3", "MSt1"), ("mD3", "MSb1"), ("mL3", "MStau2"), ("mE3", "MStau1")]
    if ctx.quick:
        control = control[:8]
    solve = []
    for b in mbases:
        vals, _, _ = base_res["m" + b]
        masses = vals[12:34]
        for par, mname in control:
            mi = MS_MASS.index(mname)
            for lab, m0 in sorted(targets(masses, MS_MASS, mname, False).items()):
                if lab.split("/")[0].lstrip("2*") in ("Q",):
                    continue
                if not (0.3 * masses[mi] <= m0 <= 3 * masses[mi]):
                    continue
                solve.append([b, par, mname, mi, lab, m0])
    # bisection in lock-step: bracket [p/4, 4p] of the controlling input
    st = []
    for b, par, mname, mi, lab, m0 in solve:
        pv = abs(MS_BASE[b][MS_PAR.index(par)])
        st.append([pv / 4, pv * 4, None, None])
    def mass_at(xs):
        cs = []
        for k, ((b, par, mname, mi, lab, m0), x) in enumerate(zip(solve, xs)):
            p = list(MS_BASE[b]); pi = MS_PAR.index(par); p[pi] = math.copysign(x, p[pi] if p[pi] != 0 else 1.0)
            cs.append(("s%d" % k, "M", p))
        r = evaluate(exe, cs)
        return [(r["s%d" % k][0][12 + solve[k][3]] if r["s%d" % k][0] is not None else None) for k in range(len(solve))]
    if solve:
        flo = mass_at([s[0] for s in st]); fhi = mass_at([s[1] for s in st])
        ncases += 2 * len(solve)
        alive = []
        for k, s in enumerate(st):
            m0 = solve[k][5]
            if flo[k] is None or fhi[k] is None or not (min(flo[k], fhi[k]) < m0 < max(flo[k], fhi[k])):
                continue
            s[2] = flo[k] < fhi[k]
            alive.append(k)
        for it in range(70):
            mids = [0.5 * (st[k][0] + st[k][1]) for k in range(len(st))]
            fm = mass_at(mids)
            ncases += len(solve)
            moved = False
            for k in alive:
                lo, hi, inc, _ = st[k]
                mid = mids[k]
                if mid <= lo or mid >= hi or fm[k] is None:
                    continue
                moved = True
                if (fm[k] < solve[k][5]) == inc:
                    st[k][0] = mid
                else:
                    st[k][1] = mid
            if not moved:
                break
        for k in alive:
            b, par, mname, mi, lab, m0 = solve[k]
            pstar = st[k][0]
            pi = MS_PAR.index(par)
            for d in OFFS:
                p = list(MS_BASE[b]); p[pi] = math.copysign(pstar * (1 + d), p[pi] if p[pi] != 0 else 1.0)
                cid = "d%d" % len(cases)
                cases.append((cid, "M", p)); meta[cid] = (b, "mass:" + par, mname, lab, d)
        ctx.note("mssm_mass_level_targets_solved", len(alive))
        ctx.note("mssm_mass_level_targets_unreachable", len(solve) - len(alive))
    res = evaluate(exe, cases)
    ncases += len(cases)
    groups = {}
    for cid, (b, kind, mov, lab, d) in meta.items():
        groups.setdefault((b, kind, mov, lab), {})[d] = res[cid]
    mskipped = 0
    for (b, kind, mov, lab), byd in sorted(groups.items()):
        ys = {}
        for d, (vals, exc, sig) in byd.items():
            sigs.add(("M", sig))
            ok = vals is not None and vals[34] == 0     # accepted without reported problem/warning
            ys[d] = vals[:12] if ok else None
            if not ok:
                mskipped += 1
        chord_check(ctx, "MSSM", MS_NAMES, "%s=%s" % (mov, lab), ys, {"model": "MSSM", "base": b, "kind": kind, "moving": mov, "target": lab})
    ctx.note("mssm_paths", len(groups))
    ctx.note("mssm_points_with_problem_or_rejected", mskipped)

    # ------------------------------------------------------------------ signature-refined lines
    lines = []
    lat = [10.0 ** (j / 8.0) for j in range(0, 33)]          # 1 .. 1e4 GeV
    for b in bases:
        for t in ([2] if ctx.quick else [2, 5, 6]):
            for mi, mov in ((0, "mh"), (1, "mH"), (2, "mA"), (3, "mHp"), (10, "mhSM")):
                # the coincidence targets themselves are seeds of the line: a guard window around a target is an
                # island between two lattice points with equal signatures, which bisection alone never enters
                tgl = targets([TH_BASE[b][0], TH_BASE[b][1], TH_BASE[b][2], TH_BASE[b][3]] + th_sm_masses, TH_MASS, mov, True)
                ts = sorted(set(lat) | {v for v in tgl.values() if 1.0 <= v <= 1e4})
                ts = [x for x in ts if not (mov == "mh" and x > TH_BASE[b][1]) and not (mov == "mH" and x < TH_BASE[b][0])]
                lines.append(("LT", "L%s%d%s" % (b, t, mov), mi, TH_BASE[b] + [t, 125.09, 1], ts, ("THDM", b, t, mov)))
    for b in mbases:
        for mov in (["mu", "M2", "mL2", "mE2"] if ctx.quick else ["mu", "M1", "M2", "MA", "mL2", "mE2", "mQ3", "mU3", "Q"]):
            pi = MS_PAR.index(mov)
            sgn = -1.0 if MS_BASE[b][pi] < 0 else 1.0
            ts = sorted(sgn * x for x in lat if x >= 60)
            lines.append(("LM", "L%s%s" % (b, mov), pi, MS_BASE[b], ts, ("MSSM", b, 0, mov)))

    def linejob(L):
        cmd, lid, idx, p, ts, info = L
        txt = "%s %s %d %d %s %d %s\n" % (cmd, lid, W, idx, " ".join(hexf(float(x)) for x in p), len(ts), " ".join(hexf(x) for x in ts))
        return L, _run(exe, txt)
    nbd = 0
    windows = []      # (base, type, moving, index, params, target label, m0, window edge): narrow windows around a coincidence
    with ThreadPoolExecutor(16) as ex:
        for L, out in ex.map(linejob, lines):
            cmd, lid, idx, p, ts, (model, b, t, mov) = L
            names = TH_NAMES if model == "THDM" else MS_NAMES
            nc = len(names)
            pts = {}
            bds = []
            massless = set()
            for ln in out.split("\n"):
                tk = ln.split()
                if not tk:
                    continue
                if tk[0] in ("P", "N"):
                    tv = unhex(tk[2])
                    if tk[3] == "OK":
                        nv = int(tk[4]); v = [unhex(x) for x in tk[5:5 + nv]]
                        ok = model == "THDM" or v[34] == 0
                        pts[tv] = v[:nc] if ok else None
                        if model == "MSSM" and min(v[12 + 6:12 + 15]) < 1e-2:
                            massless.add(tv)        # a sfermion mass below 0.01 GeV: edge of a tachyonic region
                    else:
                        pts[tv] = None
                    sigs.add((model[0], tk[-1])); ncases += 1
                elif tk[0] == "BD":
                    bds.append((unhex(tk[2]), unhex(tk[3])))
                elif tk[0] == "CAP":
                    ctx.cap("boundaries>48:%s" % lid)
            nbd += len(bds)
            # name a location on the line: which coincidence of the other masses is it?
            if model == "THDM":
                base_masses = [TH_BASE[b][0], TH_BASE[b][1], TH_BASE[b][2], TH_BASE[b][3]] + th_sm_masses
                tg = targets(base_masses, TH_MASS, mov, True)
            else:
                tg = {}

            def location(x):
                for lab, m0 in sorted(tg.items()):
                    if abs(abs(x) - m0) <= 1e-6 * m0:
                        return lab
                return None
            for tv, v in sorted(pts.items()):
                if v is not None:
                    bad = {names[ci] for ci, y in enumerate(v) if not math.isfinite(y)}
                    for ci, y in enumerate(v):
                        if not math.isfinite(y):
                            if any(pn in bad for pn in DERIVED[model].get(names[ci], [])):
                                continue      # a sum / uncertainty built from a non-finite part: reported at the part
                            lab = location(tv)
                            ctx.fail("%s.%s:%s%s:nonfinite%s" % (model, names[ci], mov, ("=" + lab) if lab else "-line", ":massless-sfermion" if tv in massless else ""), "%s %s = %r at %s = %r (base %s, type %s)" % (model, names[ci], y, mov, tv, b, t),
                                     {"model": model, "base": b, "ytype": t, "moving": mov, "value": hexf(tv)}, max_per_key=1)
            for a, bb in bds:
                va, vb = pts.get(a), pts.get(bb)
                if va is None or vb is None:
                    continue
                where = (location(a) or "at~%.5g" % a) + ("~light" if model == "THDM" and abs(a) < 10.0 else "")
                if model == "THDM" and location(a):
                    m0w = tg[location(a)]
                    edge = a if abs(a - m0w) >= abs(bb - m0w) else bb
                    if 0 < abs(edge - m0w) <= 1e-5 * m0w:
                        windows.append((b, t, mov, idx, list(p), location(a), m0w, edge))
                jumped = set()
                order = [n for n in names if n not in DERIVED[model]] + [n for n in names if n in DERIVED[model]]
                for cn in order:
                    ci = names.index(cn)
                    ya, yb = va[ci], vb[ci]
                    if math.isfinite(ya) and math.isfinite(yb) and abs(ya - yb) > 0.01 * max(abs(ya), abs(yb)):
                        jumped.add(cn)
                        if any(pn in jumped for pn in DERIVED[model].get(cn, [])):
                            continue
                        ctx.fail("%s.%s:%s=%s:jump:%s%s" % (model, cn, mov, where, _bucket(abs(ya - yb) / max(abs(ya), abs(yb))).replace("dev", "step"), ":massless-sfermion" if (a in massless or bb in massless) else ""),
                                 "%s %s jumps from %.6e to %.6e between the adjacent doubles %s = %r | %r (base %s, type %s)" % (model, cn, ya, yb, mov, a, bb, b, t),
                                 {"model": model, "base": b, "ytype": t, "moving": mov, "a": hexf(a), "b": hexf(bb)}, max_per_key=1)
    # ------------------------------------------------------------------ interior of narrow windows
    # A guard of the kind "if m is within 1e-8 of m0, shift it" creates a window that the offsets d = 1e-k only
    # touch at a few points.  Inside every located window whose edge is within 1e-5 of a coincidence target the
    # value must be finite and (the window being that narrow) equal within 1 % to the value just outside, at
    # geometrically spaced interior points - a shift that lands ON the pole it is meant to avoid sits at such a point.
    FR = (0.125, 0.25, 0.5, 0.75, 0.9, 0.99)
    wcases, wmeta = [], {}
    for wi, (b, t, mov, idx, pp, lab, m0w, edge) in enumerate(windows):
        for f in FR + (2.0, 4.0):
            q = list(pp); q[idx] = m0w + f * (edge - m0w)
            cid = "w%d_%g" % (wi, f)
            wcases.append((cid, "T", q)); wmeta[cid] = (wi, f)
    if wcases:
        wres = evaluate(exe, wcases)
        ncases += len(wcases)
        for wi, (b, t, mov, idx, pp, lab, m0w, edge) in enumerate(windows):
            out2 = wres["w%d_%g" % (wi, 2.0)][0]
            out4 = wres["w%d_%g" % (wi, 4.0)][0]
            if out2 is None or out4 is None:
                continue
            side = "+" if edge > m0w else "-"
            for f in FR:
                vals = wres["w%d_%g" % (wi, f)][0]
                if vals is None:
                    continue
                bad = set()
                for cn in [n for n in TH_NAMES if n not in DERIVED["THDM"]] + [n for n in TH_NAMES if n in DERIVED["THDM"]]:
                    ci = TH_NAMES.index(cn)
                    y, r2, r4 = vals[ci], out2[ci], out4[ci]
                    if not (math.isfinite(r2) and math.isfinite(r4)) or abs(r2 - r4) > 0.002 * max(abs(r2), abs(r4)):
                        continue        # the outside reference itself is not settled (reported by the chord / jump clauses)
                    dev = abs(y - r2) / max(abs(r2), 1e-300) if math.isfinite(y) else float("inf")
                    if dev > 0.01:
                        bad.add(cn)
                        if any(pn in bad for pn in DERIVED["THDM"].get(cn, [])):
                            continue
                        ctx.fail("THDM.%s:%s=%s:window-interior:%s" % (cn, mov, lab, "nonfinite" if not math.isfinite(y) else _bucket(dev)),
                                 "THDM %s = %r at %s = m0 (1 %s %.3g x window) inside the window of relative half-width %.3g around %s = %s = %r, but %r just outside (base %s, type %s)"
                                 % (cn, y, mov, side, f, abs(edge - m0w) / m0w, mov, lab, m0w, r2, b, t),
                                 {"model": "THDM", "base": b, "ytype": t, "moving": mov, "target": lab, "fraction": f, "edge": hexf(edge)}, max_per_key=1)
    ctx.note("narrow_windows_probed", len(windows))
    ctx.evals(ncases)
    for s in sorted(sigs):
        ctx.nontrivial(("sig",) + s)
    ctx.assumptions += ["base points are fixed in the check (4 THDM, 3 MSSM); coincidences of other points are not covered",
                        "MSSM derived masses are steered through one controlling input inside [p/4, 4p]; targets outside are reported as unreachable"]
    return ctx.finish(
        "paths = (base point, Yukawa type / running, moving mass, coincidence target) x 23 offsets d; plus signature-bisected regime boundaries of each moving-mass line (+-%d ulp); "
        "distinct = (model, contribution, relation) paths that are inside the property's 20%% window + distinct branch-path signatures" % W,
        {"states": len(sigs), "transitions": nbd + len(groups), "traces_validated_against_impl": ncases, "regime_boundaries": nbd,
         "offsets": len(OFFS)})


def replay(ctx, path):
    from core import replay_by_rerun
    tier = "thorough" if os.path.basename(path).startswith("thorough") else "quick"
    ctx.tier, ctx.quick = tier, tier == "quick"
    return replay_by_rerun(run, ctx, path)
