"""C16 - unphysical input is rejected or flagged, never silently computed.

Fault enumeration: every documented defect (oracle/decision_table.py) alone and
every compatible pair is applied to 3 valid base points per input style,
crossed with force-output {0,1} and the entry points
  program (SLHA / GM2Calc / THDM file, several output formats),
  C++ interface, C interface (through harness/cli_api.cpp).
The decision table predicts the outcome of each case from the documentation
(refused with which class / code, or result with a warning; exit status); every
prediction is replayed against the real program / library."""
import itertools
import math
import multiprocessing as mp
import os
import re
import shutil
import sys

import build
import clirun15 as C
from core import InfraError

sys.path.insert(0, os.path.join(os.path.dirname(os.path.dirname(os.path.abspath(__file__))), "oracle"))
import decision_table as T   # noqa: E402

META = dict(
    level="fault_enumeration",
    technique="every documented input defect alone and in pairs x force-output x entry point, each outcome compared with a documentation-derived decision table",
    text="For 3 valid base points per input style (MSSM: SLHA and GM2Calc scheme; THDM: mass and gauge basis) every documented defect (MSSM: 10 SM/Higgs-sector conditions, 15 soft masses in two magnitudes, massless chargino, 5 tachyons; THDM: 16) is applied alone and in every compatible pair, with force-output off and on, through gm2calc.x (minimal, detailed and SLHA output; thorough: all 5 formats x 4 loop/resummation settings), the C++ interface and the C interface. The decision table predicts: without force - refusal with EInvalidInput/EPhysicalProblem (C: error code), exit 1, no physics number; with force - a result accompanied by a warning/problem indication; exit status non-zero iff refused or (MSSM) a tachyon is flagged; a result without any indication is finite; the warning an input-determined defect draws alone persists in every forced pair containing it. Deviation bound: 2 simultaneous defects.",
    note="trusted: the realisation of each defect as concrete numbers (decision_table.py), cli_api's transcription of the example programs' call order; the MSSM C interface has no force-output switch (only force=0 is reachable there); Higgs-sector tachyons are unreachable from the inputs (MA is a pole-mass input)",
    design_ref="3/C16")

HARNESSES = [(("cli_api", "plain", ["cli_api.cpp"]), {})]

EPS = 2.220446049250313e-16


def monitored_sectors():
    """names of the states the library can report as tachyonic (the strings of its problem messages)"""
    import glob
    import re
    names = set()
    for f in sorted(glob.glob(os.path.join(build.REPO, "src", "MSSMNoFV", "*.cpp")) + glob.glob(os.path.join(build.REPO, "src", "THDM", "*.cpp"))):
        names.update(re.findall(r'flag_tachyon\(\s*"(\w+)"\s*\)', open(f, encoding="latin-1").read()))
    return names


MONITORED = set()


def mw_tree(p):
    """tree-level chargino off-diagonal entry at tan(beta) = 1 in the arithmetic of the library:
    g2 = e/sw, v = 2 MW/g2, vu = v/sqrt(2), entry = g2 vu/sqrt(2) (= MW up to rounding)"""
    EL = math.sqrt(4. * 3.141592653589793 * p["alpha_MZ"])
    cW = p["MW"] / p["MZ"]
    g2 = EL / math.sqrt(1. - cW * cW)
    vev = 2. * p["MW"] / g2
    vu = vev / math.sqrt(1. + 1. / (1.0 * 1.0))
    return 0.7071067811865475 * g2 * vu


HELP = {"mw_tree": mw_tree}

STYLE = {
    # style: (model, cli type, renderer, api args, cpp entry, c entry, base points)
    "slha": ("MSSM", "slha", C.render_slha, C.mssm_api_args, "cpp_slha", "c_slha", C.slha_points),
    "gm2": ("MSSM", "gm2calc", C.render_gm2, C.mssm_api_args, "cpp_gm2", "c_gm2", C.gm2_points),
    "mass": ("THDM", "thdm", C.render_thdm, C.thdm_api_args, "cpp_mass", "c_mass", C.thdm_mass_points),
    "gauge": ("THDM", "thdm", C.render_thdm, C.thdm_api_args, "cpp_gauge", "c_gauge", C.thdm_gauge_points),
}


def cli_variants(quick):
    """(fmt, loop, resum) settings of the program runs"""
    if quick:
        return [(0, 2, 1), (1, 2, 1), (4, 2, 1), (0, 2, 0), (4, 2, 0)]
    return [(f, l, r) for f in range(5) for (l, r) in ((2, 1), (2, 0), (1, 1), (0, 1))]


def defect_sets(style, skip, quick):
    model = STYLE[style][0]
    ds = [d for d in (T.mssm_defects() if model == "MSSM" else T.thdm_defects())
          if style in d.styles and d.id not in skip and not (quick and d.thorough_only)]
    sets = [()] + [(d,) for d in ds]
    nconf = 0
    for a, b in itertools.combinations(ds, 2):
        if quick and not (a.pairs_in_quick and b.pairs_in_quick):
            continue
        if T.compatible(a, b):
            sets.append((a, b))
        else:
            nconf += 1
    return ds, sets, nconf


# setter orders of cli_api (MSSM C++ / C entries); the prediction of the decision table does not depend on them
ORDERS = [("sm-last", 1), ("tb-last", 2), ("reversed", 3), ("revisit", 4), ("repair", 5)]


# repaired object vs fresh object: calculate_masses() recomputes everything from the inputs (rounding only).
# In the SLHA scheme no equality is claimed: pole masses that were not given are filled in from the first
# spectrum ("a vanishing pole mass means: use the tree-level mass") and stay in the object, so a re-used
# object legitimately differs from a fresh one (observed 1-7 % in a_mu); there the repaired object only has
# to be accepted and to give a finite result.
REPAIR_TOL = {"gm2": 1e-10, "slha": None}


def api_line(c):
    return "%s %d %s%s" % (c["hent"], c["force"], c["argstr"], c["extra"])


def build_cases(quick, skip_by_base):
    cases, info = [], {}
    for style in ("slha", "gm2", "mass", "gauge"):
        model, typ, ren, args, cpp, cc, pts = STYLE[style]
        for bname, base in pts():
            bargs = " ".join("b." + t for t in args(base).split())
            ds, sets, nconf = defect_sets(style, skip_by_base.get((style, bname), ()), quick)
            info[style] = dict(defects=len(ds), sets=len(sets), conflicting_pairs_skipped=nconf)
            for dset in sets:
                ids = tuple(d.id for d in dset)
                p = T.apply(base, dset, HELP)
                cli_only = any(d.special == "cli-only" for d in dset)
                body = ren(p)        # one string object shared by all program variants of this point
                argstr = None if cli_only else args(p)
                for force in (0, 1):
                    com = dict(model=model, style=style, base=bname, ids=ids, force=force)
                    for (fmt, loop, resum) in cli_variants(quick):
                        cases.append(dict(com, entry="cli", fmt=fmt, loop=loop, resum=resum, typ=typ, body=body))
                    if cli_only:
                        continue
                    # API lines are assembled in execute(): "<harness entry> <force> <argstr><extra>"
                    api = dict(com, argstr=argstr)
                    cases.append(dict(api, entry="cpp", hent=cpp, extra=""))
                    if model == "THDM" or force == 0:        # the MSSM C interface cannot set force-output
                        cases.append(dict(api, entry="c", hent=cc, extra=""))
                    if model == "MSSM":
                        # the same through the functions without tan(beta) resummation
                        cases.append(dict(api, entry="cpp-nonres", hent=cpp, extra=" nonres=1"))
                        if force == 0:
                            cases.append(dict(api, entry="c-nonres", hent=cc, extra=" nonres=1"))
                        # the order of the setter calls is part of the API alphabet (singles; pairs: thorough)
                        if len(dset) <= 1 or not quick:
                            for oname, onum in ORDERS:
                                if onum >= 4 and not dset:
                                    continue
                                ex = " order=%d" % onum + (" " + bargs if onum >= 4 else "")
                                cases.append(dict(api, entry="cpp@" + oname, hent=cpp, extra=ex))
                                if force == 0:
                                    cases.append(dict(api, entry="c@" + oname, hent=cc, extra=ex))
                    if model == "THDM" and any(d.id.startswith("yukawa=") for d in dset):
                        # the same invalid integer stored directly in the basis struct (e.g. a zeroed C struct)
                        cases.append(dict(api, entry="cpp-rawenum", hent=cpp, extra=" yukawa_cast=1"))
                        cases.append(dict(api, entry="c-rawenum", hent=cc, extra=" yukawa_cast=1"))
    return cases, info


# ----------------------------------------------------------------------------
# running
# ----------------------------------------------------------------------------
def _cli_chunk(job):
    cli, d, chunk = job
    out = []
    for n, typ, body, cfg in chunk:
        pth = os.path.join(d, "k%06d.in" % n)
        with open(pth, "w") as fh:
            fh.write(body + C.config_block(cfg))
        out.append((n,) + C.run_cli(cli, typ, pth))
        os.unlink(pth)
    return out


def _api_chunk(job):
    exe, chunk = job
    res, err = C.run_harness(exe, "c16", [ln for _, ln in chunk], "C")
    if res is not None:
        return [(n, r_) for (n, _), r_ in zip(chunk, res)]
    out = []        # locate the case that killed the harness
    for n, ln in chunk:
        r1, e1 = C.run_harness(exe, "c16", [ln], "C")
        out.append((n, r1[0] if r1 else {"CRASH": e1}))
    return out


def execute(cases):
    build.ensure("plain")
    cli, exe = build.cli("plain"), C.harness_exe()
    root = C.scratch("c16")
    try:
        cl = [(n, c["typ"], c["body"], (c["fmt"], c["loop"], c["resum"], c["force"], 0, 0, 1))
              for n, c in enumerate(cases) if c["entry"] == "cli"]
        ap = [(n, api_line(c)) for n, c in enumerate(cases) if c["entry"] != "cli"]
        with mp.Pool(min(16, os.cpu_count() or 4)) as pool:
            r1 = pool.map(_cli_chunk, [(cli, root, cl[i:i + 200]) for i in range(0, len(cl), 200)])
            r2 = pool.map(_api_chunk, [(exe, ap[i:i + 200]) for i in range(0, len(ap), 200)])
        obs = [None] * len(cases)
        for ch in r1:
            for n, rc, out, err in ch:
                obs[n] = observe_cli(cases[n], rc, out, err)
        for ch in r2:
            for n, r_ in ch:
                obs[n] = observe_api(cases[n], r_)
    finally:
        shutil.rmtree(root, ignore_errors=True)
    return obs


# ----------------------------------------------------------------------------
# observation -> normal form
# ----------------------------------------------------------------------------
RESULT_LOC = {2: ("LOWEN", "6"), 3: ("SPHENOLOWENERGY", "21"), 4: ("GM2CALCOUTPUT", "0")}


def observe_cli(c, rc, out, err):
    fmt = c["fmt"]
    o = dict(kind="cli", rc=rc, stdout=out[-200:] if fmt < 2 else "", result=None, shape_ok=True)
    diag = err
    if fmt == 0:
        ls = [x.strip() for x in out.split("\n") if x.strip()]
        if len(ls) == 1 and C.SCI_RE.fullmatch(ls[0]):
            o["result"] = C.pnum(ls[0])
        elif ls:
            o["shape_ok"] = False
    elif fmt == 1:
        for ln in out.split("\n"):          # headline: 'label = value +- uncertainty'
            m = C.SCI_RE.search(ln)
            if m and "+-" in ln[m.end():]:
                o["result"] = C.pnum(m.group(0))
                break
        if out.strip() and o["result"] is None:
            o["shape_ok"] = False
    else:
        blk, key = RESULT_LOC[fmt]
        v = C.entry(out, blk, key)
        if v is not None:
            try:
                o["result"] = C.pnum(v)
            except ValueError:
                o["shape_ok"] = False
        s3 = [" ".join(tk[1:]) for tk in C.block_entries(out, "SPINFO") if tk[0] == "3"]
        s4 = [" ".join(tk[1:]) for tk in C.block_entries(out, "SPINFO") if tk[0] == "4"]
        o["spinfo3"], o["spinfo4"] = s3, s4
        diag = err + " ".join(("Warning: " + x) for x in s3) + " ".join(("Error: " + x) for x in s4)
        if s4 and v is not None:
            o["shape_ok"] = False
    o["refused"] = o["result"] is None
    o["err_ind"] = "Error" in diag
    o["warn_ind"] = "Warning" in diag
    o["prob_ind"] = "Problem" in diag or "tachyon" in diag
    o["msg"] = diag[-300:]
    o["text"] = diag
    o["cls"] = None
    return o


def observe_api(c, r_):
    if "CRASH" in r_:
        return dict(kind=c["entry"], crash=r_["CRASH"], refused=False, result=None, err_ind=False, warn_ind=False,
                    prob_ind=False, msg="harness died: %s" % r_["CRASH"], cls=None, rc=None, shape_ok=False)
    err = C.unesc(r_.get("stderr", "-"))
    setup = r_.get("setup", "")
    o = dict(kind=c["entry"], rc=None, shape_ok="ESCAPED" not in r_, escaped=r_.get("ESCAPED"), cls=None, code=None)
    amu = r_.get("amu", "NA")
    if c["entry"].startswith("cpp"):
        if setup.startswith("EXC"):
            o["refused"], o["cls"] = True, setup[4:]
        elif amu.startswith("EXC"):
            o["refused"], o["cls"] = True, amu[4:]
        else:
            o["refused"] = False
    else:
        o["code"] = int(r_.get("code", "-1"))
        o["refused"] = setup != "OK"
        o["modelnull"] = r_.get("modelnull")
    o["result"] = None if o["refused"] else C.hval(amu)
    unc = r_.get("unc", "NA")
    o["unc"] = None if (o["refused"] or unc.startswith("EXC")) else C.hval(unc)
    probs = C.unesc(r_.get("problems", "-"))
    o["err_ind"] = "Error" in err
    o["yuk_flag"] = "Error" in err and "invalid Yukawa type" in err
    o["warn_ind"] = "Warning" in err or r_.get("warning") == "1"
    o["prob_ind"] = r_.get("problem") == "1" or "Problem" in err or "tachyon" in err
    what = C.unesc(r_.get("what", "-")) + C.unesc(r_.get("amuwhat", "-"))
    o["msg"] = (what + " | " + err + " | " + probs)[-300:]
    o["text"] = what + " | " + err + " | " + probs
    o["mcha0"] = r_.get("mcha0")
    o["pre_setup"] = r_.get("pre_setup")
    return o


# ----------------------------------------------------------------------------
# decision table vs. observation
# ----------------------------------------------------------------------------
def judge(c, o):
    """-> list of (verdict, explicit key | None, what); empty = as predicted"""
    model, ids, force = c["model"], c["ids"], c["force"]
    dset = [d for d in (T.mssm_defects() if model == "MSSM" else T.thdm_defects()) if d.id in ids]
    if c["entry"] == "c" and model == "THDM" and any(d.id.startswith("yukawa=") for d in dset):
        # the integer goes through int_to_c_yukawa_type(), which returns an enum and has no error channel
        # but stderr: its 'Error: invalid Yukawa type' message is the required flag (decision_table.py,
        # 'structural'); the remaining defects are judged as usual
        if not o.get("yuk_flag") and not o.get("crash"):
            return [("computed-silently", None, "%s %s base %s, defects {%s}, force=%d, entry c: int_to_c_yukawa_type accepted the invalid "
                     "Yukawa type without an error message on stderr [%s]" % (model, c["style"], c["base"], ", ".join(ids), force, o.get("msg", "")))]
        dset = [d for d in dset if not d.id.startswith("yukawa=")]
    # a defect counts where its spectrum is looked at: the resummed one always (setup), the one with
    # tree-level Yukawas only when a function without tan(beta) resummation is evaluated
    if c["entry"] == "cli":
        nonres = c["fmt"] != 1 and c["resum"] == 0 and c["loop"] >= 1
    else:
        nonres = c["entry"].endswith("-nonres")
    dset = [d for d in dset if "res" in d.paths or (nonres and "nonres" in d.paths)]
    order = c["entry"].partition("@")[2]
    if order == "repair":
        dset = []      # the defective object was repaired with the valid values: judged as the valid point
    is_c = c["entry"].partition("@")[0] in ("c", "c-nonres", "c-rawenum")
    pred = T.predict(model, dset, force)
    if (is_c and model == "MSSM" and pred["refused"] and not o.get("crash") and not o["refused"]
            and o["result"] is not None and math.isnan(o["result"])
            and all("res" not in d.paths for d in dset)):
        # a defect that shows only in the spectrum built inside a calculation function: a double-returning
        # C function has no error channel, NaN is its refusal (gm2_1loop.h / gm2_2loop.h).  Everything
        # else must be refused by the conversion / spectrum function through its error code.
        o = dict(o, refused=True, result=None, code=None, nan_refusal=True)
    tag = "+".join(ids) or "valid"
    ent = c["entry"] + (":fmt%d" % c["fmt"] if c["entry"] == "cli" else "")
    desc = "%s %s base %s, defects {%s}, force=%d, entry %s%s" % (
        model, c["style"], c["base"], ", ".join(ids), force, ent,
        " loop=%d resum=%d" % (c["loop"], c["resum"]) if c["entry"] == "cli" else "")
    F = []

    def fail(verdict, what, key=None):
        F.append((verdict, key, "%s: %s [%s]" % (desc, what, o.get("msg", "").strip().replace("\n", " / "))))

    if o.get("crash"):
        fail("crash", "harness process died")
        return F
    if o.get("escaped"):
        fail("exception-escaped", "exception %s left the interface" % o["escaped"])
        return F
    if not o["shape_ok"]:
        fail("output-shape", "unexpected output shape: %r" % (o.get("stdout", ""),))
    if order == "revisit" and o.get("pre_setup") != "OK":
        fail("revisit-valid-refused", "the valid point set up first on the same object was refused (%s)" % o.get("pre_setup"))
    cli = o["kind"] == "cli"
    if cli and o["rc"] not in (0, 1):
        fail("exit-status", "exit status %r" % (o["rc"],))
        return F
    res = o["result"]
    indicated = o["err_ind"] or o["warn_ind"] or o["prob_ind"]
    # ---- prediction ---------------------------------------------------------
    if pred["refused"]:
        if not o["refused"]:
            fail("not-refused" if indicated else "computed-silently",
                 "documented as untreatable%s, but a result %r was produced%s"
                 % (", force-output off" if not force else " (no model is defined)", res,
                    "" if indicated else " without any error, warning or problem"))
        else:
            if cli:
                if o["rc"] != 1:
                    fail("refused-but-exit-0", "calculation refused but exit status %r" % o["rc"])
                if not o["err_ind"]:
                    fail("refused-without-diagnostic", "refused without an error message on stderr / SPINFO[4]")
            elif o["kind"].startswith("cpp"):
                if "*" in pred["classes"]:
                    if o["cls"] in ("std::exception", "unknown"):
                        fail("class", "thrown %s is not a gm2calc::Error" % o["cls"])
                elif o["cls"] not in pred["classes"]:
                    fail("class", "throws %s, documented class %s" % (o["cls"], "/".join(sorted(pred["classes"]))))
            else:
                if o.get("nan_refusal"):
                    ok = True
                elif "*" in pred["ccodes"]:
                    ok = o["code"] != 0
                else:
                    ok = o["code"] in pred["ccodes"]
                if not ok:
                    fail("code", "error code %r, documented %s" % (o["code"], sorted(pred["ccodes"], key=str)))
    else:
        if o["refused"]:
            if ids and force:
                if model == "MSSM" and "vd = 0" in o.get("msg", ""):
                    fail("force-refused", "refused although force-output is set (get_TB() throws before the input check)",
                         key="MSSM:vd=0:force-refused")
                else:
                    fail("force-refused", "refused although force-output is set")
            else:
                fail("valid-refused", "valid point refused")
        else:
            if pred["indicator"] and not indicated:
                fail("force-silent", "result %r produced under force-output without any warning or problem indication" % res)
            if cli:
                want = pred["exit"] if pred["exit"] is not None else (1 if o["prob_ind"] else 0)
                if o["rc"] != want:
                    fail("exit-status", "exit status %d, expected %d (%s)" % (
                        o["rc"], want, "tachyon defect" if pred["exit"] == 1 else
                        "problem flagged" if o["prob_ind"] else "result with at most warnings"))
            if pred["finite"] and (res is None or not math.isfinite(res)):
                fail("valid-nonfinite", "valid point gives %r" % res)
    # ---- a tachyon defect must be reported for its own sector --------------------
    if dset and all(d.kind == "tachyon" for d in dset) and not o.get("crash"):
        text = o.get("text", "")
        for d, sec in [(d_, s_) for d_ in dset if d_.sector for s_ in ((d_.sector,) if isinstance(d_.sector, str) else d_.sector)]:
            if sec not in MONITORED:
                continue
            if is_c and o["refused"]:
                continue        # the C interfaces report only the error code / NaN when they refuse
            if o["refused"] and "res" not in d.paths and any("res" in e.paths for e in dset):
                continue        # refused at the setup (resummed spectrum); the other spectrum is never built
            if o["refused"] and d.also and "tachyon" not in text:
                continue        # refused as negative soft mass^2, the other documented rule
            if ("%s tachyon" % sec) not in text:
                fail("tachyon-not-flagged" if o["refused"] else "tachyon-not-flagged-in-result", "the %s state is tachyonic (%s) but '%s tachyon' is not reported" % (sec, d.doc, sec))
    # ---- invariants of the statement, on every run ---------------------------
    if cli:
        nonzero = o["rc"] != 0
        should = o["refused"] or (model == "MSSM" and o["prob_ind"])
        if nonzero != should:
            fail("exit-iff", "exit status %d but refused=%s problem-flagged=%s" % (o["rc"], o["refused"], o["prob_ind"]))
    if not o["refused"] and not indicated:
        for nm, v in (("value", res), ("uncertainty", o.get("unc"))):
            if v is not None and not math.isfinite(v):
                fail("silent-nonfinite", "%s %r reported without error, problem or warning" % (nm, v))
    if c["entry"] == "c" and model == "THDM" and o["refused"] and o.get("modelnull") != "1":
        fail("c-handle", "error code %r but the model pointer is not NULL" % o["code"])
    return F


def outcome_class(o):
    if o.get("crash"):
        return "crash"
    if o["refused"]:
        return "refused:%s" % (o.get("cls") or o.get("code") or "cli")
    r_ = o["result"]
    fin = "finite" if (r_ is not None and math.isfinite(r_)) else "nonfinite"
    return "result:%s:%s%s" % (fin, "P" if o["prob_ind"] else "", "W" if o["warn_ind"] else "")


def probe_cha0():
    """is the massless-chargino realisation massless in the spectrum the library computes?"""
    exe = C.harness_exe()
    skip, notes = {}, {}
    cha0 = [d for d in T.mssm_defects() if d.special == "cha0"][0]
    for bname, base in C.gm2_points():
        p = T.apply(base, (cha0,), HELP)
        res, err = C.run_harness(exe, "c16", ["cpp_gm2 1 %s" % C.mssm_api_args(p)], "C")
        if res is None:
            raise InfraError("cli_api c16 probe failed: %s" % err)
        m = C.hval(res[0].get("mcha0"))
        notes[bname] = m
        if m is None or not abs(m) < EPS:
            skip[("gm2", bname)] = ("cha0",)
    return skip, notes


def run(ctx):
    import time
    t0 = time.time()
    MONITORED.update(monitored_sectors())
    realised = {s_ for d in T.mssm_defects() + T.thdm_defects() if d.sector
                for s_ in ((d.sector,) if isinstance(d.sector, str) else d.sector)}
    # the realisations of the sign patterns are confirmed by textbook formulas, not by the library
    for d in T.thdm_defects():
        if d.pattern and not T.thdm_pattern_ok(T.apply(dict(C.thdm_gauge_points())["Q1"], (d,), HELP), d.pattern):
            raise InfraError("THDM realisation %s does not have its sign pattern at tree level" % d.id)
    for sty, pts in (("gm2", C.gm2_points()), ("slha", C.slha_points())):
        for bname, base in pts:
            for d in T.mssm_defects():
                if d.id.endswith(":both-neg") and sty in d.styles and not T.sfermion_both_negative(T.apply(base, (d,), HELP), d.sector):
                    raise InfraError("MSSM realisation %s on %s/%s is not (-,-) at tree level" % (d.id, sty, bname))
    ctx.note("monitored_sectors_in_source", sorted(MONITORED))
    ctx.note("monitored_sectors_without_realisation", sorted(MONITORED - realised))
    ctx.note("realised_sectors_not_in_source", sorted(realised - MONITORED))
    if not MONITORED & realised:
        raise InfraError("no monitored sector name found in the sources (%r)" % sorted(MONITORED))
    win = {}
    for sty, pts in (("gm2", C.gm2_points()), ("slha", C.slha_points())):
        for bname, base in pts:
            for d in T.mssm_defects():
                if d.paths != ("res", "nonres") and sty in d.styles:
                    xt, xr, db = T.sbottom_window(T.apply(base, (d,), HELP))
                    win["%s/%s/%s" % (sty, bname, d.id)] = [round(v, 3) for v in xt + xr + (db,)]
                    ok = (xt[0] >= 1.2 and xr[1] <= 1 / 1.2) if d.paths == ("nonres",) else (xt[1] <= 1 / 1.2 and xr[0] >= 1.2)
                    if not ok:
                        raise InfraError("realisation %s on %s/%s has no safe margin: tree %r resummed %r Delta_b %.3f"
                                         % (d.id, sty, bname, xt, xr, db))
    ctx.note("sbottom_mixing_over_diagonal[tree_min,tree_max,res_min,res_max,Delta_b]", win)
    skip, notes = probe_cha0()
    ctx.note("cha0_lightest_chargino_mass_per_base", {k: repr(v) for k, v in notes.items()})
    for k in sorted(skip):
        ctx.cap("massless chargino not realised on base %s/%s" % k)
    cases, info = build_cases(ctx.quick, skip)
    t1 = time.time()
    obs = execute(cases)
    t2 = time.time()
    stats = {}
    per_entry = {}
    verdicts = [judge(c, o) for c, o in zip(cases, obs)]
    # a failing pair is attributed to a member that fails alone in the same way (fewest deviations first)
    single_fail = set()
    for c, vs in zip(cases, verdicts):
        if len(c["ids"]) == 1:
            for v, _, _ in vs:
                single_fail.add((c["model"], c["entry"], c["force"], v, c["ids"][0]))

    def key_of(c, verdict):
        ids = c["ids"]
        if len(ids) == 2:
            for i in ids:
                if (c["model"], c["entry"], c["force"], verdict, i) in single_fail:
                    ids = (i,)
                    break
        return "%s:%s:%s:%s" % (c["model"], "+".join(ids) or "valid", verdict, c["entry"])

    # force-output turns EACH untreatable condition into a warning: the warning kinds that an input-determined defect
    # (negative soft mass^2; massless chargino next to a soft-mass partner) draws when it is the only defect must
    # also be drawn when a second defect is present (differential oracle, no message text is hard-coded: the kinds
    # are whatever the single-defect run on the same base / entry / configuration printed beyond the valid point)
    def cfg_of(c):
        return tuple(sorted((k, v) for k, v in c.items() if k not in ("ids", "body", "argstr")))

    def wkinds(o):
        return {re.sub(r"\s+", " ", re.sub(r"[0-9.eE+-]{3,}", "#", w)).strip()
                for w in re.findall(r"Warning: ([^\n|]*)", o.get("text", "")) if "conver" not in w}
    soft_id = re.compile(r"^(msl|mse|msq|msu|msd)\d\^2")
    single_w, valid_w = {}, {}
    for c, o in zip(cases, obs):
        if c["model"] == "MSSM" and c["force"] == 1 and not o.get("crash") and not o["refused"]:
            if len(c["ids"]) == 0:
                valid_w[cfg_of(c)] = wkinds(o)
            elif len(c["ids"]) == 1:
                single_w[(c["ids"][0], cfg_of(c))] = wkinds(o)
    nmono = 0
    for c, o, vs in zip(cases, obs, verdicts):
        if c["model"] != "MSSM" or c["force"] != 1 or len(c["ids"]) != 2 or o.get("crash") or o["refused"]:
            continue
        if c["entry"].endswith("@repair"):
            continue        # the final object is the valid point; which warnings the defective first phase printed depends on
                            # where its setup stopped (a partner such as MW = MZ is refused before the soft masses are looked at)
        cf = cfg_of(c)
        have = wkinds(o)
        for i, d_id in enumerate(c["ids"]):
            other = c["ids"][1 - i]
            if not (soft_id.match(d_id) or (d_id == "cha0" and soft_id.match(other))):
                continue
            alone = single_w.get((d_id, cf))
            if alone is None:
                continue
            nmono += 1
            lost = sorted(alone - valid_w.get(cf, set()) - have)
            if lost:
                vs.append(("pair-warning-lost", None, "%s %s base %s, defects {%s}, force=1, entry %s: the warning %r that %s draws alone is missing "
                           "when the second defect is present (diagnostics: %r)" % (c["model"], c["style"], c["base"], ", ".join(c["ids"]), c["entry"],
                                                                                   lost, d_id, o.get("text", "")[-200:])))
    ctx.note("pair_runs_checked_for_persisting_single_defect_warnings", nmono)
    if nmono == 0:
        raise InfraError("no forced defect pair was compared with its single-defect runs")
    # a defective object repaired with the valid values must give the result of a freshly built valid object
    fresh = {}
    for c, o in zip(cases, obs):
        if not c["ids"] and c["entry"] in ("cpp", "c"):
            fresh[(c["style"], c["base"], c["force"], c["entry"])] = o.get("result")
    nrep = 0
    for c, o, vs in zip(cases, obs, verdicts):
        if c["entry"].endswith("@repair") and not o.get("crash"):
            ref = fresh.get((c["style"], c["base"], c["force"], c["entry"].partition("@")[0]))
            r_ = o.get("result")
            nrep += 1
            tol = REPAIR_TOL[c["style"]]
            if tol is not None and ref is not None and r_ is not None and math.isfinite(ref) and math.isfinite(r_):
                if abs(r_ - ref) > tol * abs(ref):
                    vs.append(("repair-differs", None, "%s %s base %s, defects {%s}, force=%d, entry %s: object repaired with the valid values gives %r, "
                               "a fresh valid object %r (rel. diff %.2e > %.0e)" % (c["model"], c["style"], c["base"], ", ".join(c["ids"]), c["force"],
                                                                                   c["entry"], r_, ref, abs(r_ - ref) / abs(ref), tol)))
    ctx.note("repaired_objects_compared_with_fresh", nrep)
    for c, o, vs in zip(cases, obs, verdicts):
        ctx.evals(1)
        per_entry[c["entry"]] = per_entry.get(c["entry"], 0) + 1
        oc = outcome_class(o)
        stats[oc.split(":")[0] + (":" + oc.split(":")[1] if o["refused"] else "")] = stats.get(oc.split(":")[0] + (":" + oc.split(":")[1] if o["refused"] else ""), 0) + 1
        ctx.nontrivial((c["model"], c["style"], c["entry"], c["force"], len(c["ids"]), oc))
        if not c["ids"] and c["force"] == 0:
            ctx.add("valid_base_runs", 1)
        for verdict, key, what in vs:
            ctx.fail(key or key_of(c, verdict), what, {k: v for k, v in c.items()})
    ctx.note("phase_seconds", {"build_cases": round(t1 - t0, 1), "execute": round(t2 - t1, 1), "judge": round(time.time() - t2, 1)})
    ctx.note("cases_per_entry", per_entry)
    ctx.note("outcomes", stats)
    ctx.note("enumeration", info)
    ctx.note("cli_variants(fmt,loop,resum)", cli_variants(ctx.quick))
    refused = sum(1 for o in obs if o["refused"])
    withres = sum(1 for o in obs if not o["refused"])
    ctx.note("refused", refused)
    ctx.note("results_produced", withres)
    if refused < 100 or withres < 100:
        raise InfraError("vacuous run: %d refused, %d results" % (refused, withres))
    for c in cases[:1] + [c for c in cases if len(c["ids"]) == 2 and c["entry"] == "cpp"][:2]:
        ctx.sample({k: v for k, v in c.items() if k != "body"})
    ctx.assumptions += [
        "decision table written from README/gm2_error.hpp and the property statement; structural defects (undecidable basis, Yukawa type) accept any gm2calc::Error class",
        "MSSM C interface has no force-output switch: only force=0 is exercised there",
        "Higgs-sector tachyons (hh, Ah, Hpm) cannot be produced from the inputs and are not enumerated",
        "tan(beta) = infinity is realised as 1e300 (the readers reject the token 'inf')",
        "tachyons that exist in one spectrum only are realised in the sbottom sector (Delta_b ~ +5 / -0.56, margins asserted from arXiv:0901.2065 Eq.(31)); Delta_mu, Delta_tau are too small for a stau/smuon analogue with a safe margin"]
    return ctx.finish(
        "cases = {3 base points per style} x {no defect, each defect, each compatible pair} x force {0,1} x entry points "
        "{program x output variants, C++, C}; distinct = (model, style, entry, force, #defects, outcome class)",
        {"defect_sets_per_base": {k: v["sets"] for k, v in info.items()}})


def replay(ctx, path):
    import json
    c = json.load(open(path))["data"]
    c["ids"] = tuple(c["ids"])
    MONITORED.update(monitored_sectors())
    o = execute([c])[0]
    f = judge(c, o)
    if f:
        print("replay: %s" % f[0][2])
        print("VIOLATION property=C16 replay=%s" % path)
        return 1
    print("replay: holds now: %s %s {%s} force=%d entry %s -> %s" % (c["model"], c["base"], ",".join(c["ids"]), c["force"], c["entry"], outcome_class(o)))
    return 0
