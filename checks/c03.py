"""C03 - one-loop a_mu equals an independent evaluation of the published formulas.

MSSM: a deviation-bounded lattice of on-shell parameter sets (all 8 sign patterns of (mu, M1, M2) at every
point) is built exactly like examples/example-gm2calc.cpp; for every point accepted without exception /
problem the Lagrangian parameters reported by the public getters are fed to oracle/mssm_ref.py (mpmath, own
mass matrices, real-orthogonal signed-mass diagonalisation, Eqs.(2.11a,b) of arXiv:1311.1775) and compared with
amu1LChi0, amu1LChipm and calculate_amu_1loop to 1e-8 of the sum of absolute terms.  The same is done for
calculate_amu_1loop_non_tan_beta_resummed (parameters of a copy converted with convert_to_non_tan_beta_resummed(), whose
Yukawa must be sqrt2 m_mu/vd) and, for a subset, on a persistent model object re-used from point to point.

THDM: mass- and gauge-basis lattices x all six Yukawa types x non-diagonal Delta_l / Pi_l patterns; the
reported Yukawa matrices and masses are fed to oracle/thdm_ref.py (generation sum of the scalar, pseudoscalar
and charged-Higgs terms minus the SM Higgs term, loop integrals by quadrature of their Feynman-parameter
definition) and compared with calculate_amu_1loop(THDM)."""
import itertools
import json
import multiprocessing as mp
import os
import subprocess
import sys

import build
from core import InfraError, hexf, unhex

sys.path.insert(0, os.path.join(os.path.dirname(os.path.dirname(os.path.abspath(__file__))), "oracle"))

META = dict(
    level="exploration",
    technique="deviation-bounded exhaustive lattice (all sign patterns at every point) against an independent "
              "mpmath re-derivation: own mass matrices, signed-mass real diagonalisation, published one-loop sums",
    text="Every accepted point of a finite lattice of MSSM on-shell inputs (tan beta, |mu|,|M1|,|M2| x all 8 sign "
         "patterns, slepton masses, A_mu; <=2 (quick) / <=3 (thorough) simultaneous deviations from 6 base points plus "
         "the full sign x tan beta x 3-value hierarchy product; SM inputs alpha(MZ), alpha(0), MW, MZ, m_mu, mt, mb, mtau "
         "with <=2 deviations at every base point) and of THDM inputs (mass and gauge basis, six Yukawa "
         "types, single-entry and dense Delta_l/Pi_l; SM inputs m_e, m_mu, m_tau, MW, MZ, alpha_em(MZ), mhSM with <=2 "
         "deviations at the base configurations) is compared with a >=30-digit evaluation of arXiv:1311.1775 "
         "Eqs.(2.11a,b) resp. the generation-summed one-loop THDM expression minus the SM Higgs term, computed from the "
         "parameters the model reports. Tolerance 1e-8 of the sum of absolute terms. Every command is evaluated twice, in lattice order and in "
         "reversed order in a fresh process, and the two result lines must be bitwise equal (no dependence on what was "
         "evaluated before). Nothing is claimed off the lattice.",
    note="trusted: mpmath eigsy/svd_r/quad/log, oracle/ff_ref.py closed forms (validated by C01), the textbook mass "
         "matrices written in oracle/mssm_ref.py; the resummed muon Yukawa and the Yukawa matrices are taken from the "
         "model's getters as Lagrangian parameters (their own correctness is not part of this property)",
    design_ref="3/C03")

HARNESSES = [(("mssm_ref", "plain", ["mssm_ref.cpp"]), {})]

TOL = 1e-8

# ------------------------------------------------------------------ lattices

TB = [1.0, 2.0, 10.0, 50.0, 100.0]
GAUGINO = [50.0, 100.0, 300.0, 1000.0, 1e4]
SLEPTON = [80.0, 100.0, 300.0, 1000.0, 1e4]
AMU = [-1e4, 0.0, 1e4]
# (tan beta, |mu|, |M1|, |M2|, mL, mR, A_mu): example-gm2calc.cpp, BM1-BM4 of arXiv:1311.1775, input/example.gm2
MSSM_BASE = [
    ("example", (10.0, 350.0, 150.0, 300.0, 500.0, 500.0, 0.0)),
    ("BM1", (40.0, 350.0, 150.0, 300.0, 400.0, 400.0, 0.0)),
    ("BM4", (50.0, 160.0, 140.0, 2000.0, 2000.0, 200.0, 0.0)),
    ("SPS1a", (10.0, 619.858, 211.722, 401.057, 356.09, 225.076, -293.720212)),
    ("BM2", (40.0, 1300.0, 150.0, 300.0, 400.0, 400.0, 0.0)),
    ("BM3", (40.0, 4000.0, 150.0, 300.0, 400.0, 400.0, 0.0)),
]
MSSM_ALPHA = [TB, GAUGINO, GAUGINO, GAUGINO, SLEPTON, SLEPTON, AMU]
SIGNS = list(itertools.product((1, -1), repeat=3))


def deviations(base, alpha, dmax):
    """all assignments with <= dmax dimensions deviating from base (deterministic order, fewest first)"""
    n = len(base)
    alts = [[v for v in alpha[i] if v != base[i]] for i in range(n)]
    for d in range(dmax + 1):
        for dims in itertools.combinations(range(n), d):
            for vals in itertools.product(*[alts[i] for i in dims]):
                p = list(base)
                for i, v in zip(dims, vals):
                    p[i] = v
                yield tuple(p), d


# SM inputs of the MSSM points: alpha(MZ), alpha(0), MW, MZ, m_mu, mt, mb(mb), mtau; None = value of the example
MSSM_SM_ALT = [[0.00781], [0.0073], [80.0], [91.5], [0.11, 0.1], [170.0], [4.5], [1.8]]
# SM inputs of the THDM points: m_e, m_mu, m_tau, MW, MZ, alpha_em(MZ), mhSM; None = default of gm2calc::SM / example
# complete non-default SM input sets (all of alpha(MZ), MW, MZ differ from the library's and the example's values)
MSSM_SM_FULL = [(0.00781, 0.0073, 80.0, 91.5, 0.11, 170.0, 4.5, 1.8),
                (0.0076, 0.00729, 81.0, 90.5, 0.1, 175.0, 4.0, 1.7),
                (0.0079, 0.0073, 79.5, 92.0, 0.1056583715, 173.34, 4.18, 1.777)]
THDM_SM_ALT = [[0.00075], [0.1, 0.11], [1.9], [79.0], [92.5], [1 / 127.0], [120.0, 130.0]]


def sm_deviations(alts, dmax):
    """SM-input tuples (None = default) with 1..dmax entries deviating, deterministic order"""
    n = len(alts)
    for d in range(1, dmax + 1):
        for dims in itertools.combinations(range(n), d):
            for vals in itertools.product(*[alts[i] for i in dims]):
                t = [None] * n
                for i, v in zip(dims, vals):
                    t[i] = v
                yield tuple(t), d


def sm_tokens(sm):
    return "" if sm is None else " " + " ".join("d" if v is None else hexf(v) for v in sm)


def mssm_points(quick):
    """list of (q, origin, sm) ; sm = None (example's SM inputs) or an 8-tuple with None = default entries"""
    seen, out = set(), []
    bases = MSSM_BASE[:4] if quick else MSSM_BASE
    dmax = 2 if quick else 3

    def add(p, s, origin, sm):
        q = (p[0], s[0] * p[1], s[1] * p[2], s[2] * p[3], p[4], p[5], p[6])
        if (q, sm) not in seen:
            seen.add((q, sm))
            out.append((q, origin, sm))

    for name, b in bases:
        for p, d in deviations(b, MSSM_ALPHA, dmax):
            for s in SIGNS:
                add(p, s, "%s+%d" % (name, d), None)
    # SM-input dimension: <= 2 SM deviations at every base point (all signs); thorough: additionally one SM
    # deviation combined with every single-parameter deviation
    for name, b in bases:
        for sm, ds in sm_deviations(MSSM_SM_ALT, 2):
            for s in SIGNS:
                add(b, s, "%s+0+SM%d" % (name, ds), sm)
        for sm in MSSM_SM_FULL:
            for s in SIGNS:
                add(b, s, "%s+0+SMfull" % name, sm)
        if not quick:
            for p, d in deviations(b, MSSM_ALPHA, 1):
                if d == 0:
                    continue
                for sm, ds in sm_deviations(MSSM_SM_ALT, 1):
                    for s in SIGNS:
                        add(p, s, "%s+1+SM1" % name, sm)
    if not quick:
        # full product signs x tan beta x 3-value hierarchies
        g3, s3 = [50.0, 300.0, 1e4], [80.0, 300.0, 1e4]
        for tb in TB:
            for am, a1, a2, ml, mr, A in itertools.product(g3, g3, g3, s3, s3, AMU):
                for s in SIGNS:
                    add((tb, am, a1, a2, ml, mr, A), s, "hierarchy", None)
    return out


# THDM ---------------------------------------------------------------------------------------------
# Delta_l / Pi_l patterns (row-major 3x3)
def _single(i, j, v):
    m = [0.0] * 9
    m[3 * i + j] = v
    return m


DENSE = [0.01, 0.02, -0.03, 0.04, 0.05, 0.06, -0.07, 0.08, 0.09]


def _pair(i, j, a, b):
    m = [0.0] * 9
    m[3 * i + j] = a
    m[3 * j + i] = b
    return m


# both entries of a muon-coupling pair present, with equal and with opposite signs (the chirality-flip term is
# Re[(y_{g mu} y_{mu g})^*] m_g/m_mu: its sign matters), an antisymmetric matrix and a dense one with generic signs
PAIRS = [("p01++", _pair(0, 1, 0.1, 0.07)), ("p01+-", _pair(0, 1, 0.1, -0.07)), ("p01-+", _pair(0, 1, -0.1, 0.07)),
         ("p12++", _pair(1, 2, 0.1, 0.07)), ("p12+-", _pair(1, 2, 0.1, -0.07)), ("p12-+", _pair(1, 2, -0.1, 0.07)),
         ("p12--", _pair(1, 2, -0.1, -0.07)),
         ("antisym", [0.0, 0.05, -0.02, -0.05, 0.0, 0.08, 0.02, -0.08, 0.0]),
         ("dense-mixed", [0.03, -0.02, 0.05, 0.04, -0.06, 0.07, -0.01, -0.09, 0.02])]
PATTERNS_ALL = [("zero", [0.0] * 9)] + \
    [("e%d%d" % (i, j), _single(i, j, 0.1 if (i + j) % 2 == 0 else -0.1)) for i in range(3) for j in range(3)] + \
    [("dense", DENSE)] + PAIRS
PATTERNS_QUICK = [p for p in PATTERNS_ALL if p[0] in ("zero", "e01", "e10", "e11", "e12", "e21", "dense", "p01+-", "p12++",
                                                     "p12+-", "antisym", "dense-mixed")]
PATTERNS_SM = [p for p in PATTERNS_ALL if p[0] in ("zero", "p12+-", "dense-mixed")]

# mass basis: (mh, mH, mA, mHp, sba, l6, l7, tb, m122, zeta_l)
TM_BASE = (125.0, 400.0, 420.0, 440.0, 0.999, 0.0, 0.0, 3.0, 40000.0, 0.0)
TM_ALPHA = [[125.0, 95.0], [400.0, 150.0, 1500.0], [420.0, 50.0, 1500.0], [440.0, 100.0, 1500.0],
            [0.999, 1.0, 0.9, -0.95], [0.0, 0.2], [0.0, 0.1], [3.0, 0.5, 50.0], [40000.0, 1000.0, 0.0],
            [0.0, -40.0, 1.5]]
# gauge basis: (l1..l7, tb, m122, zeta_l)
TG_BASES = [(0.7, 0.6, 0.5, 0.4, 0.3, 0.2, 0.1, 20.0, 40000.0, 0.0),
            (0.26249, 0.23993, 2.09923, -1.27781, -0.71038, 0.0, 0.0, 3.0, 40000.0, 0.0)]


def _tg_alpha(b):
    a = []
    for i in range(7):
        a.append([b[i], b[i] + 0.25, b[i] - 0.15])
    a.append([b[7], 1.5, 45.0])
    a.append([b[8], 10000.0, 250000.0])
    a.append([b[9], -40.0, 1.5])
    return a


def thdm_points(quick):
    """list of (cmdline, key-tuple, scalar/SM-config id)"""
    pats = PATTERNS_QUICK if quick else PATTERNS_ALL
    pats_sm = PATTERNS_SM
    out, cid = [], 0
    cfgs = []
    for p, d in deviations(TM_BASE, TM_ALPHA, 2):
        cfgs.append((0, p, None))
    for b in TG_BASES:
        for p, d in deviations(b, _tg_alpha(b), 1 if quick else 2):
            cfgs.append((1, p, None))
    # SM-input dimension: <= 2 SM deviations at the three base configurations; thorough: additionally one SM
    # deviation combined with every single scalar-sector deviation
    for basis, b, alpha in [(0, TM_BASE, TM_ALPHA)] + [(1, b, _tg_alpha(b)) for b in TG_BASES]:
        for sm, ds in sm_deviations(THDM_SM_ALT, 2):
            cfgs.append((basis, b, sm))
        if not quick:
            for p, d in deviations(b, alpha, 1):
                if d == 0:
                    continue
                for sm, ds in sm_deviations(THDM_SM_ALT, 1):
                    cfgs.append((basis, p, sm))
    seen = set()
    for basis, p, sm in cfgs:
        if (basis, p, sm) in seen:
            continue
        seen.add((basis, p, sm))
        cid += 1
        zl = p[9]
        r = list(p[:9]) + [0.0, 0.0, zl]         # zeta_u = zeta_d = 0
        r += [0.0] * (17 - len(r))
        for typ in range(1, 7):
            if zl != 0.0 and typ != 5:
                continue            # zeta_l only enters the aligned type
            for pname, pm in (pats if sm is None else pats_sm):
                line = "T %d %d %s %s %s%s" % (basis, typ, " ".join(hexf(v) for v in r),
                                               " ".join(hexf(v) for v in pm), " ".join(hexf(v) for v in pm),
                                               sm_tokens(sm))
                out.append((line, ("mass" if basis == 0 else "gauge", typ, pname, "SM-default" if sm is None else "SM-varied"), cid))
    return out


# ------------------------------------------------------------------ harness + oracle workers

_EXE = None


def run_harness(lines, timeout=900):
    p = subprocess.run([_EXE], input="\n".join(lines) + "\n", stdout=subprocess.PIPE, stderr=subprocess.PIPE,
                       text=True, timeout=timeout)
    if p.returncode != 0:
        raise InfraError("mssm_ref harness exit %d: %s" % (p.returncode, (p.stdout[-300:] + p.stderr[-300:])))
    out = [l for l in p.stdout.split("\n") if l]
    if not out or not out[-1].startswith("END") or len(out) - 1 != len(lines):
        raise InfraError("mssm_ref harness: %d result lines for %d commands" % (len(out) - 1, len(lines)))
    for l in out:
        if l.startswith("ERR"):
            raise InfraError("mssm_ref harness: " + l)
    return out[:-1]


MNAMES = ["g1", "g2", "vd", "vu", "mu", "M1", "M2", "ml2", "me2", "y", "Ty", "Ae", "mm"]


def parse_M(tk):
    """tokens of an `M OK ...` line -> (par, lib, ntr) ; ntr = None | ('EXC', text) | dict(tot, par, chi0, chipm)"""
    i = tk.index("NTR")
    v = [unhex(t) for t in tk[2:i]]
    par = dict(zip(MNAMES, v[:13]))
    lib = dict(chi0=v[13], chipm=v[14], tot=v[15], lib_masses=v[16:])
    if tk[i + 1] != "OK":
        return par, lib, ("EXC", " ".join(tk[i + 1:])[:60])
    w = [unhex(t) for t in tk[i + 2:]]
    return par, lib, dict(tot=w[0], par=dict(zip(MNAMES, w[1:14])), chi0=w[14], chipm=w[15])


def parse_T(tk):
    v = [unhex(t) for t in tk[2:]]
    d = dict(alpha=v[0], mw=v[1], mz=v[2], mhSM=v[3], v=v[4], ml=v[5:8], mv=v[8:11],
             mh=v[11], mH=v[12], mA=v[13], mHp=v[14])
    o = 15
    for nm in ("ylh", "ylH", "ylA", "ylHp"):
        d[nm] = [[(v[o + 2 * (3 * i + j)], v[o + 2 * (3 * i + j) + 1]) for j in range(3)] for i in range(3)]
        o += 18
    return d, v[o]


def check_M(line, res):
    """-> (status, info) ; status in ok / fail / skip"""
    import math
    from mpmath import mpf
    import mssm_ref
    tk = res.split()
    if tk[1] != "OK":
        return "skip", " ".join(tk[1:])[:60]
    par, lib, ntr = parse_M(tk)
    try:
        r = mssm_ref.amu_1loop(par, detail=True)
    except ValueError as e:
        return "fail", dict(which="tachyon-not-flagged", what="library accepted the point but the rebuilt scalar "
                            "mass matrix has a non-positive eigenvalue (%s)" % e, err=float("inf"))
    if not all(math.isfinite(lib[k]) for k in ("chi0", "chipm", "tot")):
        return "fail", dict(which="nonfinite", what="library returned chi0=%r chipm=%r total=%r"
                            % (lib["chi0"], lib["chipm"], lib["tot"]), err=float("inf"))
    sig = (r["chi0_pattern"], r["smuR_index"])

    def compare(r, triples):
        worst = 0.0
        for which, lv, rv, scale in triples:
            e = abs(mpf(lv) - rv) / scale if math.isfinite(lv) else mpf("inf")
            if not e <= TOL:
                return None, dict(which=which, err=float(e), sig=sig,
                                  what="%s = %.15e, independent evaluation %.15e (deviation %.3e of sum|terms|, allowed %.0e)"
                                  % (which, lv, float(rv), float(e), TOL))
            worst = max(worst, float(e))
        return worst, None

    worst, bad = compare(r, (("amu1LChi0", lib["chi0"], r["chi0"], r["sumabs0"]),
                             ("amu1LChipm", lib["chipm"], r["chipm"], r["sumabsc"]),
                             ("calculate_amu_1loop", lib["tot"], r["chi0"] + r["chipm"], r["sumabs0"] + r["sumabsc"])))
    if bad:
        return "fail", bad
    # without tan(beta) resummation: Lagrangian parameters of the copy converted with convert_to_non_tan_beta_resummed()
    if isinstance(ntr, tuple):
        return "ok", dict(err=worst, sig=sig, ntr="skipped: " + ntr[1])
    p2 = ntr["par"]
    same = all(p2[k] == par[k] for k in MNAMES if k not in ("y", "Ty"))
    ytree = math.sqrt(2.0) * par["mm"] / par["vd"]
    if not same or abs(p2["y"] - ytree) > 1e-14 * ytree or abs(p2["Ty"] - p2["y"] * p2["Ae"]) > 1e-14 * abs(p2["y"] * p2["Ae"]):
        return "fail", dict(which="non_tan_beta_resummed:parameters", err=float("inf"), sig=sig,
                            what="convert_to_non_tan_beta_resummed() must only reset the Yukawa to sqrt2 m_mu/vd = %.17g and T = y A: "
                            "got y = %.17g, T = %.17g, other parameters unchanged: %s" % (ytree, p2["y"], p2["Ty"], same))
    try:
        r2 = mssm_ref.amu_1loop(p2)
    except ValueError as e:
        return "fail", dict(which="non_tan_beta_resummed:tachyon-not-flagged", err=float("inf"), sig=sig,
                            what="non-resummed parameter set accepted although the rebuilt scalar mass matrix has a non-positive eigenvalue")
    w2, bad = compare(r2, (("non_tan_beta_resummed:amu1LChi0", ntr["chi0"], r2["chi0"], r2["sumabs0"]),
                           ("non_tan_beta_resummed:amu1LChipm", ntr["chipm"], r2["chipm"], r2["sumabsc"]),
                           ("calculate_amu_1loop_non_tan_beta_resummed", ntr["tot"], r2["chi0"] + r2["chipm"],
                            r2["sumabs0"] + r2["sumabsc"])))
    if bad:
        return "fail", bad
    return "ok", dict(err=max(worst, w2), sig=sig, ntr="checked")


def check_T(line, res):
    import math
    from mpmath import mpf
    import thdm_ref
    tk = res.split()
    if tk[1] != "OK":
        return "skip", " ".join(tk[1:])[:60]
    d, lib = parse_T(tk)
    r = thdm_ref.amu_1loop(d)
    if not math.isfinite(lib):
        return "fail", dict(which="nonfinite", what="calculate_amu_1loop(THDM) = %r" % lib, err=float("inf"))
    e = abs(mpf(lib) - r["amu"]) / r["sumabs"]
    offdiag = any(d[nm][g][1] != (0.0, 0.0) or d[nm][1][g] != (0.0, 0.0)
                  for nm in ("ylh", "ylH", "ylA", "ylHp") for g in (0, 2))
    if not e <= TOL:
        return "fail", dict(which="amu1L", err=float(e),
                            what="calculate_amu_1loop(THDM) = %.15e, independent evaluation %.15e (deviation %.3e of "
                            "sum|terms|, allowed %.0e; parts %s)" % (lib, float(r["amu"]), float(e), TOL,
                            {k: float("%.6g" % float(v)) for k, v in r["parts"].items()}))
    flip = tuple((d["ylA"][g][1][0] * d["ylA"][1][g][0] > 0) - (d["ylA"][g][1][0] * d["ylA"][1][g][0] < 0) for g in (0, 2))
    return "ok", dict(err=float(e), sig=(offdiag, float(r["amu"]) > 0, flip))


def _work(chunk):
    out = []
    for kind, idx, line, res in chunk:
        try:
            st, info = (check_T if kind == "T" else check_M)(line, res)
        except Exception as e:   # oracle failure = infrastructure problem, reported loudly by the parent
            st, info = "oracle", "%s: %r" % (line, e)
        out.append((kind, idx, st, info))
    return out


ORDER_NAME = ("canonical: SM inputs, tan(beta), rest", "tan(beta) first, then SM inputs", "SM inputs last of all",
              "canonical reversed call by call", "as GM2_slha_io::fill_slha (alphas last)",
              "canonical with the example's SM inputs, then SM inputs overwritten")


def _rel_diff(a, b):
    """largest relative difference between the numeric tokens of two `M OK ...` result lines (a_mu entries relative
    to |chi0| + |chi+-|); None if the lines differ in structure"""
    ta, tb = a.split(), b.split()
    if len(ta) != len(tb):
        return None
    worst, scale = 0.0, None
    va, vb = [], []
    for x, y in zip(ta, tb):
        if x == y:
            va.append(None)
            continue
        try:
            va.append((unhex(x), unhex(y)))
        except ValueError:
            return None
    try:
        scale = abs(unhex(ta[15])) + abs(unhex(ta[16]))      # tokens: M OK 13 parameters chi0 chipm tot ...
    except (ValueError, IndexError):
        return None
    for k, pr in enumerate(va):
        if pr is None:
            continue
        x, y = pr
        den = max(abs(x), abs(y))
        if abs(x) < 1e-6 and scale:      # a_mu-sized entries
            den = scale
        if den == 0:
            continue
        worst = max(worst, abs(x - y) / den)
    return worst


def _first_diff(a, b):
    ta, tb = a.split(), b.split()
    for i, (x, y) in enumerate(zip(ta, tb)):
        if x != y:
            try:
                return "#%d: %.17g vs %.17g" % (i, unhex(x), unhex(y))
            except ValueError:
                return "#%d: %s vs %s" % (i, x, y)
    return "length %d vs %d" % (len(ta), len(tb))


def _decode(line):
    if not line:
        return None
    tk = line.split()
    return " ".join(t if not t.startswith(("0x", "-0x")) else "%.10g" % unhex(t) for t in tk)


def _sm_class(sm):
    return "SM-default" if sm is None else "SM:" + "".join("x" if v is not None else "." for v in sm)


def sign_name(q):
    return "".join("+" if v > 0 else "-" for v in q[1:4])


def run(ctx):
    global _EXE
    _EXE = build.harness("mssm_ref", "plain", ["mssm_ref.cpp"])
    import mssm_ref, thdm_ref
    bad = mssm_ref.selftest() + thdm_ref.selftest()
    if bad:
        raise InfraError("oracle selftest failed: %r" % (bad,))

    mpts = mssm_points(ctx.quick)
    mlines = ["M " + " ".join(hexf(v) for v in q) + sm_tokens(sm) for q, _, sm in mpts]
    tpts = thdm_points(ctx.quick)
    tlines = [t[0] for t in tpts]
    mres = run_harness(mlines)
    tres = run_harness(tlines)
    # history independence: the value of a case must not depend on what the process evaluated before.  The main
    # runs go through the lattice in order (SM-default block first, SM-varied points interleaved by base point);
    # every command is evaluated a second time in a fresh process in reversed order and compared bitwise.
    nhist = 0
    for kind, lines, res in (("MSSM", mlines, mres), ("THDM", tlines, tres)):
        rev = run_harness(lines[::-1])[::-1]
        for i, (a, b) in enumerate(zip(res, rev)):
            if a != b:
                nhist += 1
                ctx.fail("%s.history-dependence" % kind,
                         "%s: result differs between lattice order and reversed order within one process (first differing token %s)"
                         % (_decode(lines[i]), _first_diff(a, b)),
                         {"kind": "H", "line": lines[i], "before": lines[i + 1] if i + 1 < len(lines) else lines[i - 1]})
    # object re-use (the pattern of examples/example-gm2scan.cpp): a subset of the lattice is evaluated on ONE persistent
    # model object that is moved from point to point through the public setters + calculate_masses() (MR) and on copies
    # of that already evaluated object (MC).  Order: alternately from both ends of the subset, so that consecutive
    # points differ in many inputs.  Same oracle; in addition the result line must be bitwise the fresh-object one.
    step = 7 if ctx.quick else 13
    sub = list(range(3, len(mpts), step))
    order = []
    for k in range((len(sub) + 1) // 2):
        order.append(sub[k])
        if len(sub) - 1 - k != k:
            order.append(sub[len(sub) - 1 - k])
    rlist = [(i, ("MC" if n % 3 == 2 else "MR")) for n, i in enumerate(order)]
    rlines = [cmd + mlines[i][1:] for i, cmd in rlist]
    rres = run_harness(rlines)
    for (i, cmd), ln, a in zip(rlist, rlines, rres):
        if a != mres[i]:
            nhist += 1
            ctx.fail("MSSM.object-reuse:%s:differs-from-fresh-object" % cmd,
                     "%s: result on a re-used model object differs from the fresh-object result (first differing token %s)"
                     % (_decode(ln), _first_diff(mres[i], a)), {"kind": "R", "lines": rlines[:rlines.index(ln) + 1][-40:], "fresh": mlines[i]})
    # order of the setter calls: every k-th SM-varied point is set up in six different orders (harness ordered_setup:
    # canonical / tan(beta) first / SM inputs last / reversed / as fill_slha() / canonical with the example's SM inputs,
    # then SM inputs overwritten), evaluated, and evaluated again after a second calculate_masses() on the same object.
    # Same oracle on every order; results must be independent of the order and unchanged by the second call: bitwise, or
    # within 1e-12 (tan(beta) is stored as vu/vd, so a rounding-level dependence would be legitimate).
    ostep = 4 if ctx.quick else 5
    smv = [i for i, p in enumerate(mpts) if p[2] is not None]
    osub = smv[1::ostep]
    olist = [(i, o) for i in osub for o in range(6)]
    olines = ["MO %d %s%s" % (o, mlines[i][2:], "") for i, o in olist]
    ores_raw = run_harness(olines)
    ores, oagain = [], []
    for r in ores_raw:
        if " AGAIN " in r:
            a, b = r.split(" AGAIN ", 1)
            ores.append(a)
            oagain.append("M " + b)
        else:
            ores.append(r)
            oagain.append(None)
    nord = {"bitwise": 0, "within_1e-12": 0, "again_bitwise": 0, "again_within_1e-12": 0}
    for n, (i, o) in enumerate(olist):
        ref = ores[n - o]                  # order 0 of the same point
        for what, a, b, tag in (("order %d vs canonical order" % o, ref, ores[n], ""), ("second calculate_masses()", ores[n], oagain[n], "again_")):
            if b is None or (tag == "" and o == 0):
                continue
            if a == b:
                nord[tag + "bitwise"] += 1
                continue
            d = _rel_diff(a, b)
            if d is not None and d <= 1e-12:
                nord[tag + "within_1e-12"] += 1
                continue
            nhist += 1
            ctx.fail("MSSM.setter-order:%s" % ("second-calculate_masses-changes-result" if tag else "order%d-differs-from-canonical" % o),
                     "%s: %s gives a different result (first differing token %s)" % (_decode(olines[n]), what, _first_diff(a, b)),
                     {"kind": "O", "line": olines[n], "ref": olines[n - o]})
    ctx.note("setter_order", dict(points=len(osub), evaluations=len(olist), **nord))
    ctx.note("history_dependent_cases", nhist)
    ctx.note("object_reuse_chain_points", len(rlist))
    ctx.note("mssm_lattice_points", len(mpts))
    ctx.note("thdm_lattice_points", len(tpts))

    # chunks: MSSM in fixed blocks; THDM grouped by scalar configuration (shared loop-integral cache)
    chunks = []
    items = [("M", i, mlines[i], mres[i]) for i in range(len(mpts))]
    items += [("R", n, rlines[n], rres[n]) for n in range(len(rlist))]
    items += [("O", n, olines[n], ores[n]) for n in range(len(olist))]
    for i in range(0, len(items), 200):
        chunks.append(items[i:i + 200])
    cur, curid = [], None
    for i, t in enumerate(tpts):
        if curid is not None and t[2] != curid and len(cur) >= 60:
            chunks.append(cur)
            cur = []
        cur.append(("T", i, tlines[i], tres[i]))
        curid = t[2]
    if cur:
        chunks.append(cur)

    # THDM loop integrals (quadrature + antiderivative cross-check) once per distinct (kind, m_f, M_S), shared by all
    # workers through the fork
    trip = set()
    for r in tres:
        tk = r.split()
        if tk[1] == "OK":
            trip.update(thdm_ref.needed(parse_T(tk)[0]))
    trip = sorted(trip)
    ctx.note("thdm_distinct_loop_integrals", len(trip))
    with mp.Pool(min(16, os.cpu_count() or 4)) as pool:
        try:
            for items in pool.imap(thdm_ref.precompute, [trip[i:i + 40] for i in range(0, len(trip), 40)]):
                thdm_ref.preload(items)
        except ArithmeticError as e:
            raise InfraError("oracle failed: %s" % e)

    skipped = {"M": {}, "T": {}, "R": {}, "O": {}}
    checked = {"M": 0, "T": 0, "R": 0, "O": 0}
    worst = {"M": 0.0, "T": 0.0, "R": 0.0, "O": 0.0}
    worst_at = {"M": None, "T": None, "R": None, "O": None}
    ntr = {}
    fails = []
    stop = False
    with mp.Pool(min(16, os.cpu_count() or 4)) as pool:
        for out in pool.imap(_work, chunks):          # ordered -> deterministic
            for kind, idx, st, info in out:
                if st == "oracle":
                    raise InfraError("oracle failed on " + info)
                if st == "skip":
                    skipped[kind][info] = skipped[kind].get(info, 0) + 1
                    continue
                checked[kind] += 1
                if st == "fail":
                    fails.append((kind, idx, info))
                    continue
                if info["err"] > worst[kind]:
                    worst[kind] = info["err"]
                    worst_at[kind] = {"M": mlines, "T": tlines, "R": rlines, "O": olines}[kind][idx]
                if kind in ("M", "R", "O"):
                    ntr[info["ntr"]] = ntr.get(info["ntr"], 0) + 1
                if kind == "O":
                    ctx.nontrivial(("MSSM-order", olist[idx][1], info["sig"][0], info["sig"][1]))
                elif kind == "R":
                    ctx.nontrivial(("MSSM-reuse", rlist[idx][1], info["sig"][0], info["sig"][1]))
                elif kind == "M":
                    q = mpts[idx][0]
                    ctx.nontrivial(("MSSM", sign_name(q), info["sig"][0], info["sig"][1], q[6] > 0, q[6] < 0,
                                    _sm_class(mpts[idx][2])))
                else:
                    ctx.nontrivial(("THDM",) + tpts[idx][1] + info["sig"])
            if ctx.out_of_time("oracle evaluation"):
                stop = True
                break
        if stop:
            pool.terminate()
    for kind, idx, info in fails:
        if kind == "O":
            i, o = olist[idx]
            q, origin, sm = mpts[i]
            ctx.fail("MSSM.setter-order:order%d:%s:sgn(mu,M1,M2)=%s" % (o, info["which"], sign_name(q)),
                     "%s (set-up order %d = %s): %s" % (_decode(olines[idx]), o, ORDER_NAME[o], info["what"]),
                     {"kind": "M", "line": olines[idx]})
        elif kind == "R":
            i, cmd = rlist[idx]
            q, origin, sm = mpts[i]
            ctx.fail("MSSM.object-reuse:%s:%s:sgn(mu,M1,M2)=%s" % (cmd, info["which"], sign_name(q)),
                     "%s (point %d of the re-use chain, %s): %s"
                     % (_decode(rlines[idx]), idx, "persistent object moved by setters" if cmd == "MR" else "copy of the evaluated persistent object",
                        info["what"]), {"kind": "R", "lines": rlines[:idx + 1][-40:], "fresh": mlines[i]})
        elif kind == "M":
            q, origin, sm = mpts[idx]
            key = "MSSM.%s:sgn(mu,M1,M2)=%s%s" % (info["which"], sign_name(q), "" if sm is None else ":SM-varied")
            ctx.fail(key, "tb=%g mu=%g M1=%g M2=%g mL=%g mR=%g Amu=%g [%s%s]: %s"
                     % (q + (origin, "" if sm is None else ", SM inputs (alpha(MZ),alpha(0),MW,MZ,m_mu,mt,mb,mtau)=%r" % (sm,),
                             info["what"])), {"kind": "M", "line": mlines[idx]})
        else:
            b, typ, pname, smc = tpts[idx][1]
            key = "THDM.%s:%s-basis:type%d:%s:%s" % (info["which"], b, typ, pname, smc)
            ctx.fail(key, "%s: %s" % (_decode(tlines[idx]), info["what"]), {"kind": "T", "line": tlines[idx]})
    ctx.evals(checked["M"] + checked["T"] + checked["R"] + checked["O"])
    print("[C03] MSSM setter-order family: %d points x 6 orders, %d checked by the oracle, %d skipped; vs canonical: %d bitwise, %d within 1e-12; "
          "second calculate_masses(): %d bitwise, %d within 1e-12; worst oracle deviation %.2e"
          % (len(osub), checked["O"], sum(skipped["O"].values()), nord["bitwise"], nord["within_1e-12"], nord["again_bitwise"],
             nord["again_within_1e-12"], worst["O"]))
    print("[C03] MSSM non-tan-beta-resummed clause: %s" % dict(sorted(ntr.items())))
    print("[C03] MSSM object re-use chain: %d points, %d checked, %d skipped %s; worst deviation %.2e"
          % (len(rlist), checked["R"], sum(skipped["R"].values()), dict(sorted(skipped["R"].items())), worst["R"]))
    nskipM, nskipT = sum(skipped["M"].values()), sum(skipped["T"].values())
    print("[C03] MSSM: %d lattice points, %d checked, %d skipped %s; worst deviation %.2e of sum|terms|"
          % (len(mpts), checked["M"], nskipM, dict(sorted(skipped["M"].items())), worst["M"]))
    print("[C03] THDM: %d lattice points, %d checked, %d skipped %s; worst deviation %.2e of sum|terms|"
          % (len(tpts), checked["T"], nskipT, dict(sorted(skipped["T"].items())), worst["T"]))
    if checked["M"] < 0.5 * len(mpts) or checked["T"] < 0.5 * len(tpts):
        if not stop:
            raise InfraError("more than half of a lattice is skipped - lattice needs fixing")
    ctx.sample({"mssm_first": [dict(zip(("tb", "mu", "M1", "M2", "mL", "mR", "Amu"), q)) for q, _, _ in mpts[:3]]})
    ctx.sample({"mssm_sm_varied": next((_decode(l) for l, p in zip(mlines, mpts) if p[2] is not None), None),
                "thdm_sm_varied": next((_decode(t[0]) for t in tpts if t[1][3] == "SM-varied"), None)})
    ctx.sample({"mssm_last": dict(zip(("tb", "mu", "M1", "M2", "mL", "mR", "Amu"), mpts[-1][0]))})
    ctx.sample({"thdm_first": tlines[0], "thdm_last": tlines[-1]})
    ctx.assumptions += [
        "the tan(beta)-resummed muon Yukawa y_mu and the THDM Yukawa matrices are inputs of the comparison (taken from "
        "the getters); masses/mixings are recomputed from the reported Lagrangian parameters",
        "THDM: the published one-loop expression neglects m_l^2/M_S^2 in the propagator denominators (F1C/F2C/F1N form); "
        "the reference uses the same order",
        "first/third-generation sleptons fixed at 3 TeV, squarks 1 TeV, MA0 1.5 TeV: they do not enter the one-loop result"]
    return ctx.finish(
        "MSSM: %s base points, <=%d deviating dimensions over tan beta/|mu|/|M1|/|M2|/mL/mR/A_mu alphabets, all 8 sign "
        "patterns per point%s; THDM: mass basis <=2 deviations, gauge basis <=%d deviations from 2 base points, x 6 Yukawa "
        "types x %d Delta_l/Pi_l patterns; SM-input dimension (MSSM 8, THDM 7 inputs, <=2 deviating) at the base points; every "
        "command evaluated in lattice and reversed order (bitwise equal); distinct = (sign pattern, neutralino composition/sign pattern by mass order, "
        "right-smuon index, sign A_mu) resp. (basis, type, pattern, LFV couplings present, sign of result)"
        % (4 if ctx.quick else 6, 2 if ctx.quick else 3, "" if ctx.quick else " + signs x tan beta x 3^6 hierarchy product",
           1 if ctx.quick else 2, len(PATTERNS_QUICK if ctx.quick else PATTERNS_ALL)),
        {"mssm_checked": checked["M"], "mssm_non_resummed_clause": dict(sorted(ntr.items())),
         "mssm_object_reuse_checked": checked["R"], "mssm_object_reuse_skipped": dict(sorted(skipped["R"].items())), "mssm_skipped": dict(sorted(skipped["M"].items())),
         "thdm_checked": checked["T"], "thdm_skipped": dict(sorted(skipped["T"].items())),
         "worst_deviation_rel_sumabs": {"mssm": float("%.3g" % worst["M"]), "thdm": float("%.3g" % worst["T"])},
         "worst_at": {"mssm": _decode(worst_at["M"]), "thdm": _decode(worst_at["T"])},
         "tolerance": TOL})


def replay(ctx, path):
    global _EXE
    _EXE = build.harness("mssm_ref", "plain", ["mssm_ref.cpp"])
    d = json.load(open(path))["data"]
    if d["kind"] == "R":
        res = run_harness(d["lines"])[-1]
        fresh = run_harness([d["fresh"]])[0]
        st, info = check_M(d["lines"][-1], res)
        if st == "fail" or res != fresh:
            print("replay: re-use chain ending in %s -> %s" % (_decode(d["lines"][-1]),
                  info["what"] if st == "fail" else "differs from fresh object: " + _first_diff(fresh, res)))
            print("VIOLATION property=C03 replay=%s" % path)
            return 1
        print("replay: holds now: chain of %d points ending in %s" % (len(d["lines"]), _decode(d["lines"][-1])))
        return 0
    if d["kind"] == "O":
        a, b = run_harness([d["ref"], d["line"]])
        b1, b2 = (b.split(" AGAIN ", 1) + [None])[:2]
        a1 = a.split(" AGAIN ", 1)[0]
        bad = [w for w, x, y in (("order", a1, b1), ("second calculate_masses()", b1, "M " + b2 if b2 else b1))
               if x != y and not ((_rel_diff(x, y) or 1) <= 1e-12)]
        if bad:
            print("replay: %s differs (%s)" % (_decode(d["line"]), ", ".join(bad)))
            print("VIOLATION property=C03 replay=%s" % path)
            return 1
        print("replay: holds now: %s independent of the set-up order and of a second calculate_masses()" % _decode(d["line"]))
        return 0
    if d["kind"] == "H":
        alone = run_harness([d["line"]])[0]
        after = run_harness([d["before"], d["line"]])[1]
        if alone != after:
            print("replay: %s evaluated alone and after %s differ: %s" % (_decode(d["line"]), _decode(d["before"]), _first_diff(alone, after)))
            print("VIOLATION property=C03 replay=%s" % path)
            return 1
        print("replay: holds now: %s gives bitwise the same result alone and after %s" % (_decode(d["line"]), _decode(d["before"])))
        return 0
    res = run_harness([d["line"]])[0]
    st, info = (check_M if d["kind"] == "M" else check_T)(d["line"], res)
    if st == "fail":
        print("replay: %s -> %s" % (d["line"], info["what"]))
        print("VIOLATION property=C03 replay=%s" % path)
        return 1
    print("replay: holds now (%s): %s -> %s" % (st, d["line"], info))
    return 0
