"""C12 - matrix decompositions satisfy their documented factorisation contracts.

Small-scope exhaustive exploration: harness/la.cpp enumerates complete products of
tiny entry alphabets (2x2 .. 4x4; general, real symmetric, hermitian, complex
symmetric; neutralino sparsity pattern; Yukawa-like hierarchies; constructed Q D Q^T
with exactly repeated eigen/singular values) under global scalings and calls every
layer (svd, reorder_svd, fs_svd, diagonalize_symmetric, reorder_diagonalize_symmetric,
fs_diagonalize_symmetric, diagonalize_hermitian, fs_diagonalize_hermitian) and every
overload (values only, with factors, with error bounds) on each matrix.  The oracle
(reconstruction in the documented convention, unitarity, s >= 0, ordering, overload
agreement, error bounds) is evaluated in the harness in complex long double with plain
loops.  This driver shards the enumeration over the cores, aggregates and reports."""
import concurrent.futures as cf
import json
import os
import subprocess

import build
from core import InfraError

META = dict(
    level="exploration",
    technique="small-scope exhaustive enumeration of matrices over tiny entry alphabets (all instantiations, layers, overloads and call orders), factorisation oracle in long double, bitwise purity against re-ordered calls and a pristine process",
    text="Every matrix over the stated entry alphabets (2x2 general/symmetric/hermitian over 9 values spanning 12 orders of magnitude, 3x3 symmetric/hermitian/general, 4x4 symmetric over {-1,0,1}, the neutralino sparsity pattern, Yukawa-like hierarchical 3x3, constructed exactly degenerate Q D Q^T and U D V^T) times global scalings 1, 1e6, 1e-6 is decomposed by every layer and overload of gm2_linalg.hpp for the instantiations used by the models (and the neighbouring real/complex ones); reconstruction in the documented convention, unitarity, non-negativity, ordering, agreement of overloads and the error bounds are checked on each. Purity: every routine is called again on each matrix in six other call orders (values-only before full, after a different matrix, repeated, error-bound overloads interleaved) and every result must be bitwise identical to the canonical one; for the four instantiations the models use the full and values-only results are also compared bitwise with the same call made as the first library call of a pristine process. On all constructed matrices with known spectrum the returned eigen/singular values must lie within 100x the returned error bound. Exhaustive within the alphabets; says nothing about matrices with other entries.",
    note="trusted: long double arithmetic of the harness, the header-only templates are compiled into the harness from /repo/src (build variant named in HARNESSES); fork()ed zygote for the pristine-process reference; tolerance 1e-12 (reconstruction relative to |m|_F, unitarity) on every path; the looser DESIGN class for the closed-form 3x3 solver is retired since /repo ef70766 removed its last use",
    design_ref="3/C12")

HARNESSES = [(("la", "clang", ["la.cpp"]), {"link_lib": False}), (("la_users", "plain", ["la_users.cpp"]), {})]

SCALES3 = [1.0, 1e6, 1e-6]
# (set, scales) per tier.  Complex-symmetric input (Takagi via SVD) is not instantiated by the
# models (the MSSM passes a real matrix); it is explored as well and keyed separately.
QUICK = [("g2r", SCALES3), ("s2r", SCALES3), ("g2c", SCALES3), ("s2c", SCALES3), ("h2c", SCALES3),
         ("deg2", SCALES3), ("degsvd2", SCALES3), ("x23", SCALES3), ("x32", SCALES3), ("y3c", SCALES3),
         ("s3r5", [1.0]), ("s3c", [1.0]), ("h3c5", [1.0]), ("g3r", [1.0]), ("g3c3", [1.0]),
         ("deg3", SCALES3), ("degsvd3", SCALES3),
         ("spr2", [1.0]), ("spr3", [1.0]), ("spr4", [1.0]), ("sprsvd2", [1.0]), ("sprsvd3", [1.0]),
         ("s4r", [1.0]), ("n4r5", [1.0]), ("n4c", [1.0]), ("deg4", [1.0])]
THOROUGH = [("g2r", SCALES3), ("s2r", SCALES3), ("g2c", SCALES3), ("s2c", SCALES3), ("h2c", SCALES3),
            ("deg2", SCALES3), ("degsvd2", SCALES3), ("x23", SCALES3), ("x32", SCALES3), ("y3c", SCALES3),
            ("s3r7", SCALES3), ("s3c", SCALES3), ("h3c9", SCALES3), ("g3r", SCALES3), ("g3c4", SCALES3), ("g3r5", [1.0]), ("g3c5", [1.0]),
            ("deg3", SCALES3), ("degsvd3", SCALES3),
            ("spr2", SCALES3), ("spr3", SCALES3), ("spr4", SCALES3), ("sprsvd2", SCALES3), ("sprsvd3", SCALES3),
            ("s4r", SCALES3), ("s4rc", [1.0]), ("n4r7", SCALES3), ("n4c", SCALES3), ("s4c", [1.0]),
            ("h4c", [1.0]), ("deg4", SCALES3)]
# routines that must have been exercised (non-vacuity guard), instantiations of the models first
FRESH_GROUPS = ["fs_svd_rc/r/2x2", "fs_svd/c/3x3", "fs_diagonalize_symmetric/r/4x4", "fs_diagonalize_hermitian/r/2x2"]
REQUIRED = ["fs_svd_rc/r/2x2", "fs_svd/c/3x3", "fs_diagonalize_symmetric/r/4x4", "fs_diagonalize_hermitian/r/2x2",
            "fs_diagonalize_hermitian/r/3x3", "fs_diagonalize_hermitian/c/2x2", "fs_diagonalize_hermitian/c/3x3",
            "svd/r/2x2", "svd/c/3x3", "reorder_svd/r/2x2", "reorder_svd/c/3x3", "diagonalize_hermitian/r/2x2",
            "diagonalize_hermitian/r/4x4", "diagonalize_symmetric_r/r/4x4", "reorder_diagonalize_symmetric/r/4x4",
            "fs_diagonalize_symmetric/c/4x4", "eigen_utils/r/2x2",
            "move_goldstone_to/r/2x2", "move_goldstone_to/r/3x3", "move_goldstone_to/r/4x4",
            "move_goldstone_to/c/2x2", "move_goldstone_to/c/3x3", "move_goldstone_to/c/4x4"]
NSHARD = 16
# sets on which the full and the values-only result of the model instantiations are also compared bitwise with the
# same call made as the first library call of a pristine process (one fork per comparison)
FRESH_SETS = {"g2r", "s2r", "degsvd2", "deg2", "y3c", "g3c3", "degsvd3", "s4r", "n4r5"}


def _exe():
    return build.harness(*HARNESSES[0][0], **HARNESSES[0][1])


def _run_task(args):
    exe, name, scale, sh, nsh = args
    p = subprocess.run([exe], input="run %s %s %d %d %s\n" % (name, float(scale).hex(), sh, nsh, "fresh" if name in FRESH_SETS else "nofresh"),
                       stdout=subprocess.PIPE, stderr=subprocess.PIPE, text=True, timeout=3000)
    if p.returncode != 0:
        raise InfraError("la harness exit %d on %s: %s" % (p.returncode, name, (p.stdout[-300:] + p.stderr[-300:])))
    return (name, scale, sh, nsh), p.stdout


def _parse(out):
    grp, fails, fk, end = [], [], [], None
    for ln in out.split("\n"):
        tk = ln.split()
        if not tk:
            continue
        if tk[0] == "GRP":
            d = dict(t.split("=", 1) for t in tk[3:])
            cls = {} if d["cls"] == "-" else dict((c.split(":")[0], int(c.split(":")[1])) for c in d["cls"].split(","))
            grp.append((tk[2], int(d["n"]), int(d["fails"]), float(d["rec"]), float(d["uni"]), float(d["val"]), cls,
                        int(d.get("seq", 0)), int(d.get("fresh", 0)), int(d.get("known", 0)), float(d.get("ebr", 0))))
        elif tk[0] == "FAIL":
            i = tk.index("M")
            r, c = int(tk[i + 1]), int(tk[i + 2])
            ent = [float.fromhex(x) for x in tk[i + 3:i + 3 + 2 * r * c]]
            fails.append(dict(set=tk[1], code=int(tk[2]), scale=tk[3], group=tk[4], kind=tk[5], value=float(tk[6]),
                              rows=r, cols=c, entries=ent))
        elif tk[0] == "FK":
            fk.append((tk[2], tk[3], int(tk[4])))
        elif tk[0] == "END":
            end = int(tk[2])
        elif tk[0] == "ERR":
            raise InfraError("la harness: " + ln)
    return grp, fails, fk, end


def _fmt_matrix(f):
    e, r, c = f["entries"], f["rows"], f["cols"]
    rows = []
    for i in range(r):
        row = []
        for j in range(c):
            re_, im_ = e[2 * (i * c + j)], e[2 * (i * c + j) + 1]
            row.append("%g" % re_ if im_ == 0 else "%g%+gi" % (re_, im_))
        rows.append("[" + ", ".join(row) + "]")
    return "[" + ", ".join(rows) + "]"


def users_block(ctx):
    """the users of the decompositions: every stored (mass, mixing) pair reconstructs its own mass matrix"""
    import glob
    exe = build.harness(*HARNESSES[1][0], **HARNESSES[1][1])
    bases = [os.path.join(build.REPO, "input", "example.gm2")] + \
        sorted(glob.glob(os.path.join(build.REPO, "test", "test_points", "BM*_2L_resummed.in"))) + \
        sorted(glob.glob(os.path.join(build.REPO, "test", "test_points", "P*_2L_resummed*.in")))
    tbs = ["nan", "2", "50"] if ctx.quick else ["nan", "1", "2", "10", "50", "1000"]
    lines = ["%s %d %d %d %s" % (f, a, b, c, tb) for f in bases for a in (1, -1) for b in (1, -1) for c in (1, -1) for tb in tbs]
    inputs = ["thdm %d %d\n" % (sh, NSHARD) for sh in range(NSHARD)] + ["mssm %d\n%s\n" % (len(lines), "\n".join(lines))]

    def one(inp):
        p = subprocess.run([exe], input=inp, stdout=subprocess.PIPE, stderr=subprocess.PIPE, text=True, timeout=3000)
        if p.returncode != 0:
            raise InfraError("la_users harness exit %d: %s" % (p.returncode, p.stdout[-300:] + p.stderr[-300:]))
        return p.stdout
    agg, fails = {}, []
    with cf.ThreadPoolExecutor(min(16, os.cpu_count() or 4)) as ex:
        for out in ex.map(one, inputs):
            for ln in out.split("\n"):
                tk = ln.split()
                if not tk:
                    continue
                if tk[0] == "UGRP":
                    d = dict(t.split("=", 1) for t in tk[2:])
                    a = agg.setdefault(tk[1], dict(cases=0, fails=0, rec=0.0, uni=0.0))
                    a["cases"] += int(d["n"]); a["fails"] += int(d["fails"])
                    a["rec"] = max(a["rec"], float(d["rec"])); a["uni"] = max(a["uni"], float(d["uni"]))
                elif tk[0] == "UFAIL":
                    fails.append((tk[1], tk[2], float(tk[3]), " ".join(tk[4:])))
                elif tk[0] == "ERR":
                    raise InfraError("la_users harness: " + ln)
    for need in ("THDM_mass_eigenstates:Fd", "THDM_mass_eigenstates:Fu", "THDM_mass_eigenstates:Fe", "MSSMNoFV:Cha", "MSSMNoFV:Chi", "MSSMNoFV:Sm"):
        if agg.get(need, {}).get("cases", 0) == 0:
            raise InfraError("users block: %s was not exercised" % need)
    for gname, kind, val, case in sorted(fails):
        ctx.fail("users:%s:%s" % (gname, kind), "%s: stored (mass, mixing) pair does not satisfy its contract with its own mass matrix: %s = %.3e [%s; %d such case(s)]"
                 % (gname, kind, val, case, agg[gname]["fails"]), {"users": True, "group": gname, "kind": kind, "case": case})
    n = 0
    for gname, a in sorted(agg.items()):
        n += a["cases"]
        ctx.nontrivial(("users", gname))
    ctx.evals(n)
    ctx.note("users_of_the_decompositions", {k: dict(cases=v["cases"], failed_checks=v["fails"], worst_reconstruction=float("%.3g" % v["rec"]),
                                                    worst_unitarity=float("%.3g" % v["uni"])) for k, v in sorted(agg.items())})


def run(ctx):
    exe = _exe()
    plan = QUICK if ctx.quick else THOROUGH
    p = subprocess.run([exe], input="sets\n", stdout=subprocess.PIPE, text=True, timeout=60)
    counts = {ln.split()[1]: int(ln.split()[2]) for ln in p.stdout.split("\n") if ln.startswith("SET ")}
    tasks = []
    for name, scales in plan:
        if name not in counts:
            raise InfraError("la harness does not know set " + name)
        nsh = NSHARD if counts[name] >= 4096 else 1
        for sc in scales:
            for sh in range(nsh):
                tasks.append((exe, name, sc, sh, nsh))
    # largest first for load balance; results are aggregated order-independently
    tasks.sort(key=lambda t: -counts[t[1]] / t[4])
    agg, ncodes, total_fk = {}, 0, {}
    allfails = []
    with cf.ThreadPoolExecutor(min(16, os.cpu_count() or 4)) as ex:
        for (name, scale, sh, nsh), out in ex.map(_run_task, tasks):
            grp, fails, fk, end = _parse(out)
            expect = len(range(sh, counts[name], nsh))
            if end != expect:
                raise InfraError("set %s shard %d/%d: %r codes enumerated, expected %d" % (name, sh, nsh, end, expect))
            ncodes += end
            for g, n, nf, rec, uni, val, cls, nseq, nfresh, nknown, ebr in grp:
                a = agg.setdefault(g, dict(n=0, fails=0, rec=0.0, uni=0.0, val=0.0, cls={}, sets=set(), seq=0, fresh=0, known=0, ebr=0.0))
                a["n"] += n; a["fails"] += nf; a["seq"] += nseq; a["fresh"] += nfresh; a["known"] += nknown; a["ebr"] = max(a["ebr"], ebr)
                a["rec"] = max(a["rec"], rec); a["uni"] = max(a["uni"], uni); a["val"] = max(a["val"], val)
                a["sets"].add(name)
                for k, v in cls.items():
                    a["cls"][k] = a["cls"].get(k, 0) + v
            for g, kind, n in fk:
                total_fk[(g, kind)] = total_fk.get((g, kind), 0) + n
            allfails += fails
    for g in REQUIRED:
        if g not in agg or agg[g]["n"] == 0:
            raise InfraError("routine group %s was not exercised" % g)
    allfails.sort(key=lambda f: (f["group"], f["kind"], f["set"], float.fromhex(f["scale"]), f["code"]))
    for f in allfails:
        key = "%s:%s" % (f["group"], f["kind"])
        ctx.fail(key, "%s on %s (set %s, code %d, scale %g): %s = %.3e; %d such case(s) in this group"
                 % (f["kind"], _fmt_matrix(f), f["set"], f["code"], float.fromhex(f["scale"]), f["kind"], f["value"],
                    total_fk.get((f["group"], f["kind"]), 0)),
                 {"set": f["set"], "code": f["code"], "scale": f["scale"], "group": f["group"], "kind": f["kind"]})
    users_block(ctx)
    ndec = 0
    for g, a in sorted(agg.items()):
        ndec += a["n"]
        for k in a["cls"]:
            ctx.nontrivial((g, k))
    ctx.evals(ndec)
    nseq = sum(a["seq"] for a in agg.values()); nfresh = sum(a["fresh"] for a in agg.values())
    for g in REQUIRED:
        if g != "eigen_utils/r/2x2" and not g.startswith("move_goldstone_to") and agg[g]["seq"] == 0:
            raise InfraError("no re-ordered call sequences were run for " + g)
    for g in FRESH_GROUPS:
        if agg[g]["fresh"] == 0:
            raise InfraError("no fresh-process comparison was made for " + g)
    ctx.note("reordered_calls_compared_bitwise", nseq)
    ctx.note("fresh_process_comparisons", nfresh)
    ctx.note("matrices_enumerated", ncodes)
    ctx.note("decompositions_checked", ndec)
    ctx.note("failing_checks_by_group_kind", {"%s:%s" % k: v for k, v in sorted(total_fk.items())})
    ctx.note("per_routine", {g: dict(cases=a["n"], failed_checks=a["fails"], worst_reconstruction=float("%.3g" % a["rec"]),
                                     worst_unitarity=float("%.3g" % a["uni"]), worst_values_only_diff=float("%.3g" % a["val"]),
                                     classes=len(a["cls"]), sets=sorted(a["sets"]),
                                     reordered_calls_compared=a["seq"], fresh_process_comparisons=a["fresh"],
                                     known_spectrum_cases=a["known"], worst_value_error_over_returned_bound=float("%.3g" % a["ebr"]))
                             for g, a in sorted(agg.items())})
    ctx.note("sets", {name: dict(matrices=counts[name], scales=scales) for name, scales in plan})
    ctx.sample({"set": "g2r", "alphabet": [0, 1, -1, 2, -2, 1e-6, -1e-6, 1e6, -1e6], "matrices": counts["g2r"]})
    ctx.sample({"set": "s4r", "alphabet": [-1, 0, 1], "matrices": counts["s4r"],
                "example": "[[1,1,1,1],[1,1,-1,-1],[1,-1,1,-1],[1,-1,-1,1]] (eigenvalues 2,2,2,-2)"})
    ctx.sample({"classes fs_diagonalize_symmetric/r/4x4": agg["fs_diagonalize_symmetric/r/4x4"]["cls"]})
    ctx.assumptions += [
        "tolerances: reconstruction 1e-12*||m||_F and unitarity 1e-12 (Frobenius) on every path (Jacobi SVD, QR, closed-form 2x2); the 1e-7 / 1e-8 class of DESIGN 3/C12 for the closed-form real 3x3 solver is no longer granted",
        "complex symmetric (Takagi via SVD) input is not instantiated by the models; it is enumerated too and its failures are keyed '<routine>/c/<size>'",
        "purity: A = reverse(B) is the 'different matrix'; sequences full(A),vals(B),full(B) | vals(A),full(B) | full(B),vals(B),vals(B) | full(A),full(B) | vals_e(A),full_errbds(B) | full_errbds(A),vals_e(B),full_e(B) after the canonical full(B),vals(B),vals_e(B),full_e(B),full_errbds(B); complex-symmetric input runs only the first sequence; fs_svd_rc values-only calls go to the complex instantiation its full overload casts to",
        "error-bound clause: on the constructed sets (deg*, degsvd*, spr*, sprsvd*: Q D Q^T / U D V^T with known spectrum D, bases = identity, plane rotations by 45 degrees, Hadamard, tri-bimaximal, integer rotations (3,4;4,-3)/5, (1,2,2;2,1,-2;2,-2,1)/3, quaternion (1,2,2,4)/5, complex phases) the returned values must agree with D within 100 x the returned s_errbd / w_errbd (+ 4 eps max|D| for the rounding of the constructed entries); spr* spectra: every N-tuple over {0,+-1e-6,+-1,+-1e6} and over {0,1,+-1e-8,+-1e8}",
        "error-bound index check: vector bound_i == value bound / max(gap_i, eps*max|value|) as in the LAPACK users' guide sections the header cites"]
    return ctx.finish(
        "every matrix of each set (complete product of the entry alphabet, or every (basis, sign pattern, spectrum) of the "
        "constructed degenerate sets) x scaling, decomposed by every layer and overload; distinct = (routine/scalar/size, "
        "rank, number of distinct |values|, negative eigenvalue present)",
        {"states": ncodes, "transitions": ndec, "traces_validated_against_impl": ndec})


def replay(ctx, path):
    d = json.load(open(path))["data"]
    if d.get("users"):
        class R:
            quick = not os.path.basename(path).startswith("thorough")

            def __init__(self): self.f = []
            def fail(self, k, what, data=None): self.f.append((k, what))
            def evals(self, n=1): pass
            def nontrivial(self, k): pass
            def note(self, k, v): pass
        r = R(); users_block(r)
        hit = [w for k, w in r.f if k == "users:%s:%s" % (d["group"], d["kind"])]
        if hit:
            print("replay:", hit[0]); print("VIOLATION property=C12 replay=%s" % path); return 1
        print("replay: holds now (users:%s:%s)" % (d["group"], d["kind"])); return 0
    exe = _exe()
    p = subprocess.run([exe], input="one %s %s %d fresh\n" % (d["set"], d["scale"], d["code"]),
                       stdout=subprocess.PIPE, text=True, timeout=600)
    _, fails, _, _ = _parse(p.stdout)
    hit = [f for f in fails if f["group"] == d["group"] and f["kind"] == d["kind"]]
    for ln in p.stdout.split("\n"):
        if ln.startswith("INFO " + d["group"]):
            print("replay:", ln)
    if hit:
        f = hit[0]
        print("replay: %s %s on %s: %.3e" % (f["group"], f["kind"], _fmt_matrix(f), f["value"]))
        print("VIOLATION property=C12 replay=%s" % path)
        return 1
    print("replay: holds now (set %s code %d scale %s, %s %s)" % (d["set"], d["code"], d["scale"], d["group"], d["kind"]))
    return 0
