"""C14 - the command-line program is total and memory-safe on arbitrary input.

Fault enumeration against the ASan+UBSan build of gm2calc.x: every single edit (token
replacement from a fault alphabet, line delete/duplicate/swap, truncation, block-header
damage) of every shipped input file, all short byte strings over a structural alphabet, all
short argument vectors, all GM2CalcConfig combinations; thorough adds pairs of token edits and a
valgrind memcheck pass of the plain binary.  Oracle per run: terminates, exit status 0 or 1,
no signal, no sanitizer report, failure exit => diagnostic (stderr or SPINFO[4]), stdout carries
only the requested output."""
import hashlib
import itertools
import json
import os
import re
import shutil
import sys

import build
import clirun13
from core import InfraError

sys.path.insert(0, os.path.join(os.path.dirname(os.path.dirname(os.path.abspath(__file__))), "oracle"))
import slha_model as M   # noqa: E402   (only used to thin tokens of blocks the format does not read)

META = dict(
    level="fault_enumeration",
    technique="exhaustive single-edit fault enumeration (token/line/truncation/header faults, short byte strings, "
              "argument vectors, config combinations) under ASan+UBSan+LSan, valgrind memcheck pass",
    text="Every one-edit deviation of the 3 shipped examples and 44 test-point files from an 18-token fault alphabet "
         "at every token, every line delete/duplicate/swap, every truncation point, 5 header damages; all byte strings of "
         "length <= 3 over a 14-byte structural alphabet (bare and after a valid block header); all argument vectors of "
         "length <= 2 over 21 arguments; all 480 GM2CalcConfig combinations; thorough: pairs of token edits, valgrind. "
         "Each run must terminate with exit 0/1, no signal, no ASan/UBSan/LSan report, a diagnostic on failure and only the "
         "requested output on stdout. Says nothing about inputs with more simultaneous deviations than the bound.",
    note="trusted: clang ASan/UBSan/LSan (float-cast-overflow enabled, no recovery), valgrind memcheck; "
         "quick tier thins test-point files and byte strings as stated in the rule",
    design_ref="3/C14")

HARNESSES = []

REPO = build.REPO
OPTS = {"slha": "--slha-input-file=", "gm2calc": "--gm2calc-input-file=", "thdm": "--thdm-input-file="}
T_ALPHABET = [b"nan", b"inf", b"-inf", b"1e400", b"1e-400", b"-0", b"0", b"1e300", b"-1e300",
              b"99999999999999999999", b"2147483648", b"-2147483649", b"0.5", b"", b"abc", b"1e", b"+", b"0x10"]
PAIR_ALPHABET = [b"nan", b"1e400", b"-0", b"2147483648", b"", b"abc"]
H_DAMAGE = [b"Block", b"Block Q=", b"BLOCK HMIX Q=", b"Block HMIX Q= abc", b"DECAY 1 2"]
BYTE_ALPHABET = [b"B", b"l", b"o", b"c", b"k", b" ", b"\n", b"#", b"1", b"-", b".", b"e", b"\0", b"\xff"]
HEADERS = {"slha": [b"Block HMIX Q= 1.0E+03\n", b"Block MSOFT Q= 1.0E+03\n", b"Block AE\n", b"Block GM2CalcConfig\n"],
           "gm2calc": [b"Block GM2CalcInput\n", b"Block SMINPUTS\n", b"Block GM2CalcConfig\n"],
           "thdm": [b"Block MINPAR\n", b"Block GM2CalcTHDMPilInput\n", b"Block MASS\n", b"Block GM2CalcConfig\n"]}
PROGRAM_BLOCKS = (b"SPINFO", b"GM2CALCOUTPUT", b"LOWEN", b"SPHENOLOWENERGY")
_TOK = re.compile(rb"[^ \t\v\f\r]+")
_NUMLINE = re.compile(rb"^\s*[-+]?(\d+\.\d+e[-+]\d+|nan|inf)\s*$", re.I)


# ----------------------------------------------------------------------------- oracle (runs in the workers)
def judge(args, data, r):
    """-> (rc, shape, [(class, detail)], sha(stdout), sha(stderr))"""
    probs = []
    out, err = r.out, r.err
    rc = r.rc
    if r.timed_out:
        probs.append(("hang", "no termination within 60 s"))
    elif b"LeakSanitizer" in err:
        m = re.search(rb"((?:Direct|Indirect) leak of [^\n]*)(?:\n\s+#0[^\n]*)?(?:\n\s+#1 \S+ in ([^\n]*))?", err)
        probs.append(("lsan", (m.group(1) + b" in " + (m.group(2) or b"?") if m else err[-200:]).decode("latin-1")[:240]))
    elif b"AddressSanitizer" in err:
        m = re.search(rb"ERROR: (AddressSanitizer: [^\n]*)", err)
        probs.append(("asan", (m.group(1) if m else err[-200:]).decode("latin-1")[:240]))
    elif b"runtime error:" in err:
        m = re.search(rb"runtime error: ([^\n]*)", err)
        probs.append(("ubsan", m.group(1).decode("latin-1")[:240]))
    elif rc in (77, 78):
        # the sanitizer runtimes share one exitcode flag, so the class is taken from the report text above
        probs.append(("sanitizer", err[-240:].decode("latin-1")))
    elif rc is not None and rc < 0:
        probs.append(("signal%d" % -rc, err[-200:].decode("latin-1")))
    elif rc not in (0, 1):
        probs.append(("exit%r" % rc, err[-200:].decode("latin-1")))
    shape, result = "-", out
    if not probs:
        shape, p2, result = stdout_shape(args, data, rc, out, err)
        probs += p2
    # sig: what the run *answered* (exit status, kind of output, the output without the echo of the input)
    sig = "%r:%s:%s" % (rc, shape, hashlib.sha1(result).hexdigest())
    return (rc, shape, probs, hashlib.sha1(out).hexdigest(), hashlib.sha1(err).hexdigest(), sig)


def _spinfo4(out):
    inblk = False
    for ln in out.split(b"\n"):
        t = ln.split(b"#")[0].split()
        if len(t) >= 2 and t[0].upper() in (b"BLOCK", b"DECAY"):
            inblk = t[1].upper() == b"SPINFO"
        elif inblk and t and t[0] == b"4":
            return True
    return False


def _norm(ln):
    """tokens of a line; the writer separates a comment from the data by blanks"""
    h = ln.find(b"#")
    if h < 0:
        return tuple(ln.split())
    return tuple(ln[:h].split()) + (b"#",) + tuple(ln[h + 1:].split())


def stdout_shape(args, data, rc, out, err):
    probs = []
    if rc == 1 and not err.strip() and not _spinfo4(out):
        probs.append(("no-diagnostic", "exit status 1 with empty stderr and no SPINFO[4] on stdout"))
    opt = [a for a in args if a in ("--help", "-h", "--version", "-v")]
    if not out:
        shape = "empty"
        if rc == 0:
            probs.append(("success-without-output", "exit status 0 and nothing on stdout"))
    elif opt and rc == 0 and (out.startswith(b"Usage:") or re.match(rb"^\d+\.\d+\.\d+\S*\n$", out)):
        shape = "help/version"
    elif out.startswith(b"====="):
        shape = "detailed"
        if b"amu (" not in out:
            probs.append(("stdout-shape", "detailed output without result line"))
        if b"Warning:" in out or b"Error:" in out:
            probs.append(("stdout-noise", "log text in detailed output on stdout"))
    elif out.count(b"\n") == 1 and _NUMLINE.match(out):
        shape = "minimal"
    else:
        shape = "slha"
        inp = set()
        for ln in (data or b"").split(b"\n"):
            inp.add(_norm(ln))
        # an input file given by name is echoed as well
        for a in args:
            for o in OPTS.values():
                if a.startswith(o) and a[len(o):] not in ("", "-") and os.path.isfile(a[len(o):]):
                    for ln in open(a[len(o):], "rb").read().split(b"\n"):
                        inp.add(_norm(ln))
        prog = False
        nprog = 0
        progl = []
        for ln in out.split(b"\n"):
            t = ln.split()
            if not t:
                continue
            d = ln.split(b"#")[0].split()
            if len(d) >= 2 and d[0].upper() in (b"BLOCK", b"DECAY"):
                prog = d[1].upper() in PROGRAM_BLOCKS
                if prog:
                    nprog += 1
                    progl.append(b" ".join(d))
                    continue
            if prog:
                progl.append(b" ".join(t))
                continue
            if _norm(ln) not in inp:
                probs.append(("stdout-noise", "stdout line neither echoed input nor part of an output block: %r" % ln[:80]))
                break
        if nprog == 0 and not probs:
            probs.append(("stdout-shape", "stdout is neither a number, a detailed report nor SLHA output with an output block: %r" % out[:80]))
        return shape, probs, b"\n".join(progl)
    return shape, probs, out


def judge_vg(args, data, r):
    probs = []
    if r.timed_out:
        probs.append(("hang", "valgrind run did not finish"))
    elif r.rc == 79:
        m = re.search(rb"==\d+== ([A-Z][^\n]*)", r.err)
        probs.append(("memcheck", (m.group(1) if m else r.err[-200:]).decode("latin-1")))
    elif r.rc not in (0, 1):
        probs.append(("exit%r" % r.rc, r.err[-200:].decode("latin-1")))
    return (r.rc, "vg", probs, "", "", "")


# ----------------------------------------------------------------------------- inputs and edits
def load_files():
    files = []
    for fmt, fn in (("slha", "example.slha"), ("gm2calc", "example.gm2"), ("thdm", "example.thdm")):
        files.append(("input/" + fn, fmt, open(os.path.join(REPO, "input", fn), "rb").read(), True))
    sh = open(os.path.join(REPO, "test", "test_points.sh")).read()
    fmts = dict(re.findall(r"test_points/([^,\s]+),(\w+),", sh))
    d = os.path.join(REPO, "test", "test_points")
    for fn in sorted(os.listdir(d)):
        if fn.endswith(".in"):
            fmt = fmts.get(fn, "thdm" if fn.startswith("thdm") else "slha")
            files.append(("test_points/" + fn, fmt, open(os.path.join(d, fn), "rb").read(), False))
    return files


class Doc:
    """lines with token spans of an input file"""

    def __init__(self, data, fmt):
        self.lines = data.split(b"\n")
        self.trail = self.lines[-1] == b""
        if self.trail:
            self.lines = self.lines[:-1]
        self.toks = []       # (line, start, end, block name, is header, token index, block is read)
        blk, read = b"-", False
        for i, ln in enumerate(self.lines):
            body = ln.split(b"#")[0]
            sp = [(m.start(), m.end()) for m in _TOK.finditer(body)]
            hdr = len(sp) >= 2 and body[sp[0][0]:sp[0][1]].upper() in (b"BLOCK", b"DECAY")
            if hdr:
                blk = body[sp[1][0]:sp[1][1]].upper()
                read = blk.decode("latin-1") in M.READ[fmt]
            for k, (a, b) in enumerate(sp):
                self.toks.append((i, a, b, blk, hdr, k, read))
        self.headers = sorted({t[0] for t in self.toks if t[4]})

    def join(self, lines, trail=None):
        return b"\n".join(lines) + (b"\n" if (self.trail if trail is None else trail) else b"")

    def replace_tok(self, t, new):
        i, a, b = t[0], t[1], t[2]
        L = self.lines
        return self.join(L[:i] + [L[i][:a] + new + L[i][b:]] + L[i + 1:])

    def site(self, t):
        return "%s.%s%d" % (t[3].decode("latin-1"), "hdr" if t[4] else "tok", t[5])


def thin(seq, cap):
    seq = list(seq)
    n = len(seq)
    if cap is None or n <= cap:
        return seq
    if cap <= 1:
        return [seq[n // 2]][:cap]
    idx = sorted({round(i * (n - 1) / (cap - 1)) for i in range(cap)})
    return [seq[i] for i in idx]


def cases_T(doc, toks, alphabet=T_ALPHABET):
    for t in toks:
        for a in alphabet:
            yield ("T", "%s<-%s" % (doc.site(t), a.decode() or '""'), "line %d" % (t[0] + 1), doc.replace_tok(t, a))


def cases_L(doc, lines):
    L = doc.lines
    for i in lines:
        yield ("L", "delete", "line %d" % (i + 1), doc.join(L[:i] + L[i + 1:]))
        yield ("L", "duplicate", "line %d" % (i + 1), doc.join(L[:i + 1] + L[i:]))
        if i + 1 < len(L):
            yield ("L", "swap", "line %d" % (i + 1), doc.join(L[:i] + [L[i + 1], L[i]] + L[i + 2:]))


def cases_X(doc, lines, toks):
    L = doc.lines
    for i in lines:
        yield ("X", "line-boundary", "before line %d" % (i + 1), doc.join(L[:i], True) if i else b"")
    for t in toks:
        i, a, b = t[0], t[1], t[2]
        cut = a + max(1, (b - a) // 2) if b - a > 1 else a
        yield ("X", "mid-token", "line %d col %d" % (i + 1, cut), doc.join(L[:i] + [L[i][:cut]], False))


def cases_H(doc, hdrs):
    L = doc.lines
    for i in hdrs:
        for h in H_DAMAGE:
            yield ("H", h.decode().replace(" ", "_"), "line %d" % (i + 1), doc.join(L[:i] + [h] + L[i + 1:]))


CFG_VALID = {0: (0, 1, 2, 3, 4), 1: (0, 1, 2), 2: (0, 1), 3: (0, 1), 4: (0, 1), 5: (0, 1), 6: (0, 1)}     # README table


def cfg_outside(k):
    """values just outside the documented range on both sides, and huge ones"""
    mx = max(CFG_VALID[k])
    return ["-1", "%d" % (mx + 1), "%d" % (mx + 2), "2147483647", "1e10"]


# text a user controls and that may reach a format string or a fixed buffer
METACHARS = [b"%", b"%s", b"%d", b"%n", b"%1%", b"%|1$s|", b"100%", b"%%", b"%s%s%s%s%n", b"{}", b"\\", b"\"", b"'", b"a b",
        b"$(x)`y`", b"A" * 300, b"A" * 70000]
META_NAMES = ["100%.in", "point_%d_of_%s.in", "%1%.in", "%n%n%n%n.in", "%s", "%|1$s|", "%", "a b.in", "q\"uo'te.in",
              "back\\slash.in", "$(x)`y`.in", "x" * 240 + ".in", "dir%d/in%s.slha"]


def remove_block(data, name):
    out, skip = [], False
    for ln in data.split(b"\n"):
        t = ln.split(b"#")[0].split()
        if len(t) >= 2 and t[0].upper() in (b"BLOCK", b"DECAY"):
            skip = t[1].upper() == name
        if not skip:
            out.append(ln)
    return b"\n".join(out)


def error_points(files):
    """erroneous inputs of every input type, one per exit path: exception while reading the config / the parameters
    (before setup), while setting the model up, problem flagged during the calculation"""
    by = {n: (f, d) for n, f, d, _ in files}
    ex = {f: d for n, f, d, isx in files if isx}
    tp = lambda n: by["test_points/" + n][1]
    bad = lambda d: re.sub(rb"(Block SMINPUTS[^\n]*\n\s*\d+\s+)\S+", rb"\1abc", d, count=1)
    pts = [
        ("slha", "read error (token abc)", bad(ex["slha"])),
        ("slha", "no HMIX scale", remove_block(ex["slha"], b"HMIX")),
        ("slha", "tan(beta) = 0", tp("problems_zero_TB.in")),
        ("slha", "tan(beta) infinite", tp("problems_infinite_TB.in")),
        ("slha", "negative soft mass", tp("problems_negative_soft_mass.in")),
        ("gm2calc", "read error (token abc)", bad(ex["gm2calc"])),
        ("gm2calc", "Mu = 0 at 2L", tp("problems_funcs_Mu_zero_2L.in")),
        ("gm2calc", "problem flagged, result printed", tp("P1a_2L_resummed_diploma_thesis_Markus_Bach.in")),
        ("thdm", "read error (token abc)", bad(ex["thdm"])),
        ("thdm", "contradictory bases", tp("thdm_contradictory_input.in")),
        ("thdm", "tan(beta) < 0", ex["thdm"] + b"Block MINPAR\n     3    -1\n"),
        ("thdm", "invalid Yukawa type", ex["thdm"] + b"Block MINPAR\n    24     9\n"),
    ]
    return pts


# ----------------------------------------------------------------------------- driver
class Explorer:
    def __init__(self, ctx, runner):
        self.ctx, self.R = ctx, runner
        self.counts = {}
        self.outcomes = {}

    def run(self, group, items, nontrivial=True):
        """items: [(kind, what, where, fmt_or_None, args, stdin)] -> results"""
        if not items:
            return []
        res = self.R.run_many([(it[4], it[5]) for it in items])
        for it, (rc, shape, probs, ho, he, sig) in zip(items, res):
            kind, what, where, fmt, args, data = it[:6]
            extra = it[6] if len(it) > 6 else {}
            self.ctx.evals(1)
            self.counts[group] = self.counts.get(group, 0) + 1
            oc = "%s:%s" % (rc, shape)
            self.outcomes.setdefault(group, {})
            self.outcomes[group][oc] = self.outcomes[group].get(oc, 0) + 1
            if nontrivial:
                self.ctx.nontrivial((kind, fmt, what.split("<-")[-1] if kind == "T" else what, rc, shape))
            for cls, detail in probs:
                self.ctx.fail("%s:%s:%s:%s" % (kind, fmt or "-", cls, what),
                              "%s %s (%s, %s): %s: %s" % (group, what, where, " ".join(args) or "no arguments", cls, detail),
                              dict({"args": list(args), "stdin": None if data is None else data.decode("latin-1"),
                                    "group": group, "what": what, "where": where, "valgrind": kind == "V"}, **extra))
        return res


def stdin_item(kind, what, where, fmt, data):
    return (kind, what, where, fmt, [OPTS[fmt] + "-"], data)


def run(ctx):
    build.ensure("asan")
    cli = build.cli("asan")
    files = load_files()
    if len(files) < 40:
        raise InfraError("expected the 3 examples and the test-point files, found %d files" % len(files))
    q = ctx.quick
    tmp = "/var/tmp/c14_%d" % os.getpid()
    os.makedirs(tmp, exist_ok=True)
    thinning = []
    try:
        with clirun13.Runner(cli, clirun13.SAN_ENV, 10.0, 60.0, post=judge) as R:
            ex = Explorer(ctx, R)
            # sanity: the unmodified files (own format first) must behave, else the build is broken
            base = ex.run("base", [stdin_item("B", "unmodified", name, fmt, data) for name, fmt, data, _ in files])
            if not any(r[0] == 0 for r in base):
                raise InfraError("no unmodified input file runs successfully under the asan build")
            # each file under each of the three input-type options
            ex.run("formats", [stdin_item("F", "as-" + f2, name, f2, data) for name, fmt, data, _ in files
                               for f2 in OPTS if f2 != fmt])

            # ---- single edits -----------------------------------------------------------------
            file_cases = {}     # name -> list of items (for the stdin-vs-file comparison)
            for name, fmt, data, is_ex in files:
                if ctx.out_of_time("single edits"):
                    break
                doc = Doc(data, fmt)
                nl = len(doc.lines)
                if is_ex:
                    ttoks, llines, xlines, xtoks, hdrs = doc.toks, range(nl), range(nl + 1), doc.toks[3::7], doc.headers
                elif q:
                    # quick: 3 tokens per test-point file x the whole alphabet rotated (each file starts at another symbol)
                    ttoks, llines, xlines, xtoks, hdrs = thin(doc.toks, 24), thin(range(nl), 3), thin(range(nl + 1), 4), \
                        thin(doc.toks, 2), thin(doc.headers, 1)
                else:
                    rd = [t for t in doc.toks if t[6]]
                    un = [t for t in doc.toks if not t[6]]
                    ttoks = rd + un[::7]
                    llines, xlines, xtoks, hdrs = range(nl), range(nl + 1), doc.toks[3::7], doc.headers
                items = []
                if is_ex or not q:
                    items += [stdin_item(k, w, name + " " + wh, fmt, d) for k, w, wh, d in cases_T(doc, ttoks)]
                else:
                    off = sum(name.encode()) % len(T_ALPHABET)
                    for j, t in enumerate(ttoks):
                        a = T_ALPHABET[(off + j) % len(T_ALPHABET)]
                        items += [stdin_item(k, w, name + " " + wh, fmt, d) for k, w, wh, d in cases_T(doc, [t], [a])]
                items += [stdin_item(k, w, name + " " + wh, fmt, d) for k, w, wh, d in cases_L(doc, llines)]
                items += [stdin_item(k, w, name + " " + wh, fmt, d) for k, w, wh, d in cases_X(doc, xlines, xtoks)]
                items += [stdin_item(k, w, name + " " + wh, fmt, d) for k, w, wh, d in cases_H(doc, hdrs)]
                res = ex.run("edit:" + ("examples" if is_ex else "test_points"), items)
                # stdin vs file: the same bytes given as a named file must give the same stdout / exit status / stderr
                step = (50 if q else 10)
                sub = list(range(0, len(items), step))
                fitems = []
                for n, j in enumerate(sub):
                    p = os.path.join(tmp, "f%d.in" % n)
                    with open(p, "wb") as fh:
                        fh.write(items[j][5])
                    fitems.append(("S", "file:" + items[j][1], items[j][2], fmt, [OPTS[fmt] + p], None))
                fres = ex.run("stdin-vs-file", fitems, nontrivial=False)
                for j, fr in zip(sub, fres):
                    a = res[j]
                    if (a[0], a[3], a[4]) != (fr[0], fr[3], fr[4]) and not a[2] and not fr[2]:
                        ctx.fail("S:%s:stdin-vs-file:%s" % (fmt, items[j][1]),
                                 "%s %s: reading the same bytes from stdin and from a file differs: exit %r/%r, stdout %s, stderr %s"
                                 % (items[j][2], items[j][1], a[0], fr[0], "same" if a[3] == fr[3] else "DIFFERENT",
                                    "same" if a[4] == fr[4] else "DIFFERENT"),
                                 {"args": [OPTS[fmt] + "-"], "stdin": items[j][5].decode("latin-1"), "group": "stdin-vs-file",
                                  "what": items[j][1], "where": items[j][2], "valgrind": False, "compare_file": True})
            if q:
                thinning.append("test-point files: 24 tokens per file (evenly strided) each with one alphabet symbol (rotating, "
                                "offset by file name), 3 lines, 4 truncation points, 1 header; examples unthinned")
            else:
                thinning.append("test-point files: every token of blocks the format reads, every 7th token of other blocks")

            # ---- all 480 GM2CalcConfig combinations ---------------------------------------------
            combos = list(itertools.product(range(5), range(3), (0, 1), (0, 1), (0, 1), (0, 1), (0, 1)))
            items = []
            for n, c in enumerate(combos):
                blk = b"Block GM2CalcConfig\n" + b"".join(b"  %d  %d\n" % (k, v) for k, v in enumerate(c))
                for fi, (name, fmt, data, _) in enumerate(files[:3]):
                    if q and n % 3 != fi:
                        continue
                    items.append(stdin_item("C", "config", "%s + %r" % (name, c), fmt, data + blk))
            ex.run("config", items)
            if q:
                thinning.append("config: each of the 480 combinations on one of the three examples (rotating)")

            # ---- byte strings -------------------------------------------------------------------
            strs = [b""] + [b"".join(p) for n in (1, 2, 3) for p in itertools.product(BYTE_ALPHABET, repeat=n)]
            short = [s for s in strs if len(s) <= 2]
            items = []
            for fmt in OPTS:
                full = (not q) or fmt == "slha"
                items += [stdin_item("Y", "bytes", repr(s), fmt, s) for s in (strs if full else short)]
                hs = HEADERS[fmt] if not q else HEADERS[fmt][:1]
                for h in hs:
                    fullh = not q
                    items += [stdin_item("Y", "header+bytes", repr(h + s), fmt, h + s) for s in (strs if fullh else short)]
            ex.run("bytes", items)
            if q:
                thinning.append("byte strings: length<=3 bare under --slha-input-file; length<=2 bare under the other two options "
                                "and after one valid header per format; argv with a valid file on stdin only for length<=1")

            # ---- command lines ------------------------------------------------------------------
            valid = os.path.join(REPO, "input", "example.slha")
            sym = ["--help", "-h", "--version", "-v", "--bogus", ""]
            for o in OPTS.values():
                sym += [o, o + "-", o + "/nonexistent", o + tmp, o + valid]
            vecs = [()] + [(a,) for a in sym] + [(a, b) for a in sym for b in sym]
            items = [("A", "argv", repr(v), None, list(v), b"") for v in vecs]
            items += [("A", "argv+stdin", repr(v), None, list(v), files[0][2]) for v in vecs if (not q or len(v) <= 1)]
            ex.run("argv", items)

            # ---- GM2CalcConfig: documented values and values just outside, on valid AND erroneous points -------
            pts = [(fmt, "valid " + name, data) for name, fmt, data, isx in files if isx]
            errp = error_points(files)
            chk = ex.run("config-boundary", [stdin_item("G", "point", "%s: %s" % (f, w), f, d) for f, w, d in errp])
            good = [pt for pt, r in zip(errp, chk) if r[0] == 1]
            if len({f for f, _, _ in good}) < 3 or len(good) < 8:
                raise InfraError("erroneous reference points are not erroneous any more: %r"
                                 % [(f, w, r[0]) for (f, w, _), r in zip(errp, chk)])
            pts += [(f, "erroneous: " + w, d) for f, w, d in good]
            cfgblk = lambda kv: b"Block GM2CalcConfig\n" + b"".join(b"  %d  %s\n" % (k, v.encode()) for k, v in kv)
            items, meta = [], []
            for f, w, d in pts:
                for k in range(7):
                    for v in ["%d" % x for x in CFG_VALID[k]] + cfg_outside(k):
                        items.append(stdin_item("G", "GM2CalcConfig[%d]=%s" % (k, v), "%s input, %s" % (f, w), f, d + cfgblk([(k, v)])))
                        meta.append((f, w, (k,), (v,)))
                # pairs: the output format crossed with every other entry
                for k in range(1, 7):
                    v0s = cfg_outside(0) if q else ["%d" % x for x in CFG_VALID[0]] + cfg_outside(0)
                    vks = (["0", "1"] if q else ["%d" % x for x in CFG_VALID[k]]) + ([] if q else cfg_outside(k))
                    if q and k not in (3, 4, 5):
                        continue
                    for v0 in v0s:
                        for vk in vks:
                            items.append(stdin_item("G", "GM2CalcConfig[0]=%s,[%d]=%s" % (v0, k, vk), "%s input, %s" % (f, w), f,
                                                    d + cfgblk([(0, v0), (k, vk)])))
                            meta.append((f, w, (0, k), (v0, vk)))
            res = ex.run("config-boundary", items)
            # an out-of-range value is rejected (exit 1 + diagnostic, checked above) or treated exactly like a documented one
            okres, nok = {}, {}
            for (f, w, ks, vs), r in zip(meta, res):
                if all(float(v) in CFG_VALID[k] for k, v in zip(ks, vs)):
                    okres.setdefault((f, w, ks), set()).add(r[5])
                    nok[(f, w, ks)] = nok.get((f, w, ks), 0) + 1
            # the comparison needs the answers for ALL documented values of the entries involved (pairs: thorough only)
            complete = {key for key, n in nok.items() if n == len(list(itertools.product(*[CFG_VALID[k] for k in key[2]])))}
            for it, (f, w, ks, vs), r in zip(items, meta, res):
                if all(float(v) in CFG_VALID[k] for k, v in zip(ks, vs)) or r[2]:
                    continue
                if r[0] != 1 and (f, w, ks) in complete and r[5] not in okres[(f, w, ks)]:
                    ctx.fail("G:%s:out-of-range-accepted:%s" % (f, it[1]),
                             "%s (%s): the value is outside the documented range but the run neither fails with a diagnostic nor "
                             "answers like any documented value (exit %r, output kind %s)" % (it[1], it[2], r[0], r[1]),
                             {"args": it[4], "stdin": it[5].decode("latin-1"), "group": "config-boundary", "what": it[1],
                              "where": it[2], "valgrind": False,
                              "documented_alternatives": [j[5].decode("latin-1") for j, m2 in zip(items, meta)
                                                          if m2[:3] == (f, w, ks) and all(float(v) in CFG_VALID[k] for k, v in zip(ks, m2[3]))]})
            if q:
                thinning.append("config boundary pairs: out-of-range output formats x {0,1} of entries 3,4,5 only")

            # ---- command line is input too: file names with format / shell metacharacters ------------------------
            mdir = os.path.join(tmp, "m")
            os.makedirs(os.path.join(mdir, "dir%d"), exist_ok=True)
            exdata = {f: d for n, f, d, isx in files if isx}
            items = []
            for f, o in OPTS.items():
                for nm in META_NAMES:
                    pth = os.path.join(mdir, f + "_" + nm if "/" not in nm else nm.replace("/", "/" + f + "_"))
                    with open(pth, "wb") as fh:
                        fh.write(exdata[f])
                    gone = os.path.join(tmp, "none", nm)
                    items.append(("A", "existing:" + nm, f, f, [o + pth], None, {"files": {pth: exdata[f].decode("latin-1")}}))
                    items.append(("A", "missing:" + nm, f, f, [o + gone], None))
                    if not q or f != "gm2calc":
                        for second in (["--bogus"], [""], [OPTS["gm2calc"] + "-"], [o + gone + "2"]):
                            items.append(("A", "missing:" + nm + "+" + (second[0][:12] or "''"), f, f, [o + gone] + second, b""))
                            items.append(("A", (second[0][:12] or "''") + "+missing:" + nm, f, f, second + [o + gone], b""))
                items.append(("A", "missing:very-long-name", f, f, [o + os.path.join(tmp, "y" * 5000)], None))
                items.append(("A", "missing:long-%-name", f, f, [o + os.path.join(tmp, "%s%d%n" * 400)], None))
                unr = os.path.join(mdir, f + "_unreadable.in")
                with open(unr, "wb") as fh:
                    fh.write(exdata[f])
                os.chmod(unr, 0)
                items.append(("A", "unreadable", f, f, [o + unr], None))
                items.append(("A", "option-without-=", f, f, [o[:-1]], b""))
                items.append(("A", "option-without-=+name", f, f, [o[:-1], "100%.in"], b""))
            for a in ("--%s%n%d", "-%", "%", "%n", "--slha-input-file%s=x", "--" + "z" * 5000, "--help=%s", "-h%n"):
                items.append(("A", "unknown:" + a[:20], "-", None, [a], b""))
                items.append(("A", "unknown:" + a[:20] + "+valid", "-", None, [a, OPTS["slha"] + "-"], files[0][2]))
                items.append(("A", "valid+unknown:" + a[:20], "-", None, [OPTS["slha"] + "-", a], files[0][2]))
            ex.run("argv-meta", items)

            # ---- the same metacharacters inside the input: block names, comments, SPINFO/LOWEN text, tokens ------------
            items = []
            ebase = {}
            for f, w, d in good:
                if "read error" not in w:
                    ebase.setdefault(f, (w, d))
            for f in OPTS:
                for w, d in (("valid", exdata[f]), ebase[f]):
                    doc = Doc(d, f)
                    hdr0 = doc.headers[0]
                    dtoks = [t for t in doc.toks if not t[4] and t[6]]
                    key0, val0 = [t for t in dtoks if t[5] == 0][0], [t for t in dtoks if t[5] == 1][0]
                    L = doc.lines
                    for m in METACHARS:
                        mm = m if len(m) < 40 else m[:8] + b"...x%d" % len(m)
                        var = [("block-name-first", b"Block " + m + b"\n   1   2.0\n" + d),
                               ("block-name-last", d + b"Block " + m + b" Q= 1.0\n   1   2.0\n"),
                               ("header-comment", doc.join(L[:hdr0] + [L[hdr0] + b" # " + m] + L[hdr0 + 1:])),
                               ("data-comment", doc.join(L[:val0[0]] + [L[val0[0]] + b" #" + m] + L[val0[0] + 1:])),
                               ("spinfo-first", b"Block SPINFO\n   1   " + m + b"\n   2   " + m + b"\n   3   " + m + b"\n   4   " + m + b"\n" + d),
                               ("spinfo-last", d + b"Block SPINFO\n   3   " + m + b"\n   4   " + m + b"\n"),
                               ("lowen", d + b"Block LOWEN\n   6   " + m + b"\nBlock SPhenoLowEnergy\n  21   " + m
                                + b"\nBlock GM2CalcOutput\n   0   " + m + b"\n   1   " + m + b"\n"),
                               ("value", doc.replace_tok(val0, m)),
                               ("key", doc.replace_tok(key0, m)),
                               ("extra-token", doc.join(L[:val0[0]] + [L[val0[0]] + b"   " + m] + L[val0[0] + 1:]))]
                        for vn, dd in var:
                            fmts = (None, 2, 3) if vn in ("lowen", "spinfo-first", "spinfo-last") else (None,)
                            for of in fmts:
                                d2 = dd if of is None else dd + b"Block GM2CalcConfig\n   0   %d\n" % of
                                items.append(stdin_item("M", "%s<-%s%s" % (vn, mm.decode("latin-1"), "" if of is None else "/format%d" % of),
                                                        "%s input, %s" % (f, w), f, d2))
            ex.run("input-meta", items)

            # ---- thorough: pairs of token edits on the examples ------------------------------------
            if not q:
                for name, fmt, data, is_ex in files[:3]:
                    doc = Doc(data, fmt)
                    sites = thin([t for t in doc.toks if not t[4] and t[5] >= 1], 24) + \
                        thin([t for t in doc.toks if t[4] or t[5] == 0], 6)
                    items = []
                    for t1, t2 in itertools.combinations(sorted(sites), 2):
                        for a in PAIR_ALPHABET:
                            for b in PAIR_ALPHABET:
                                if t1[0] == t2[0]:
                                    L = doc.lines
                                    ln = L[t1[0]]
                                    ln = ln[:t1[1]] + a + ln[t1[2]:t2[1]] + b + ln[t2[2]:]
                                    d = doc.join(L[:t1[0]] + [ln] + L[t1[0] + 1:])
                                else:
                                    d1 = Doc(doc.replace_tok(t2, b), fmt)
                                    d = d1.replace_tok(t1, a)
                                items.append(stdin_item("P", "%s<-%s+%s<-%s" % (doc.site(t1), a.decode() or '""', doc.site(t2), b.decode() or '""'),
                                                        "%s lines %d,%d" % (name, t1[0] + 1, t2[0] + 1), fmt, d))
                    for i in range(0, len(items), 4000):
                        if ctx.out_of_time("pairs"):
                            break
                        ex.run("pairs", items[i:i + 4000])
                thinning.append("pairs: 24 value tokens + 6 key/header tokens per example (evenly strided), all pairs x 6x6 alphabet")

        # ---- thorough: valgrind memcheck of the plain binary ----------------------------------------
        nvg = 0
        if not q and shutil.which("valgrind"):
            build.ensure("plain")
            plain = build.cli("plain")
            with clirun13.Runner("valgrind", None, 120.0, 300.0, post=judge_vg) as RV:
                exv = Explorer(ctx, RV)
                items = []
                for name, fmt, data, is_ex in files[:3]:
                    doc = Doc(data, fmt)
                    toks = thin(doc.toks, 60)
                    for j, t in enumerate(toks):
                        for a in (PAIR_ALPHABET[j % 6], PAIR_ALPHABET[(j + 3) % 6], b"1e300"):
                            items.append(("V", "%s<-%s" % (doc.site(t), a.decode() or '""'), "%s line %d" % (name, t[0] + 1), fmt,
                                          ["-q", "--error-exitcode=79", plain, OPTS[fmt] + "-"], doc.replace_tok(t, a)))
                    items.append(("V", "unmodified", name, fmt, ["-q", "--error-exitcode=79", plain, OPTS[fmt] + "-"], data))
                budget = max(0.0, ctx.time_left() - 60.0)
                nmax = int(budget * 16 / 2.5)
                if nmax < len(items):
                    ctx.cap("valgrind: %d of %d cases within the time budget" % (nmax, len(items)))
                    items = thin(items, nmax)
                exv.run("valgrind", items)
                nvg = len(items)
            thinning.append("valgrind: 60 tokens per example x 3 symbols")
    finally:
        shutil.rmtree(tmp, ignore_errors=True)

    ctx.note("runs_per_group", dict(sorted(ex.counts.items())))
    oc = dict(ex.outcomes)
    ctx.note("outcomes_exit:stdout-shape", {g: dict(sorted(v.items())) for g, v in sorted(oc.items())})
    ctx.note("timeouts_rerun_alone", R.nretry)
    ctx.note("valgrind_runs", nvg)
    ctx.note("thinning", thinning)
    ctx.sample({"T alphabet": [a.decode() for a in T_ALPHABET], "header damage": [h.decode() for h in H_DAMAGE]})
    ctx.sample({"byte alphabet": [repr(b) for b in BYTE_ALPHABET], "files": len(files)})
    ctx.assumptions += [
        "ASan/UBSan/LSan (clang, -fsanitize=address,undefined,float-cast-overflow, no recovery) detect the undefined behaviour "
        "classes named in the statement; uninitialised reads only through the valgrind pass (thorough)",
        "inputs with more than one (thorough: two) simultaneous deviations from a valid file, and byte strings longer than 3, "
        "are outside the bound"]
    return ctx.finish(
        "one edit of each of the 3 examples + 44 test-point files: token<-{%d-symbol alphabet} at every token of every data line and "
        "block header | delete/duplicate/swap every line | truncate at every line boundary and inside every 7th token | 5 header "
        "damages at every header; every file under all 3 input options; 480 config combinations; all byte strings len<=3 over 14 bytes, "
        "bare and after valid headers; all argv of length<=2 over 21 arguments with empty and valid stdin; stdin vs named file; "
        "%s; thinning: %s; distinct = (edit kind, format, fault symbol/kind, exit status, stdout shape)"
        % (len(T_ALPHABET), "quick" if q else "thorough: + pairs of token edits (6x6 alphabet) + valgrind memcheck", " / ".join(thinning)),
        {})


def replay(ctx, path):
    rec = json.load(open(path))
    d = rec["data"]
    data = None if d["stdin"] is None else d["stdin"].encode("latin-1")
    made = []
    for pth, content in (d.get("files") or {}).items():
        if not os.path.exists(pth):
            os.makedirs(os.path.dirname(pth), exist_ok=True)
            with open(pth, "wb") as fh:
                fh.write(content.encode("latin-1"))
            made.append(pth)
    if d.get("valgrind"):
        build.ensure("plain")
        args = list(d["args"])
        args[2] = build.cli("plain")
        r = clirun13.run_one("valgrind", args, data, None, 300.0)
        res = judge_vg(args, data, r)
    else:
        build.ensure("asan")
        r = clirun13.run_one(build.cli("asan"), d["args"], data, clirun13.SAN_ENV, 60.0)
        res = judge(d["args"], data, r)
    print("replay: %s %s (%s): exit %r, stdout shape %s" % (d["group"], d["what"], d["where"], res[0], res[1]))
    bad = list(res[2])
    if d.get("documented_alternatives") is not None and not bad and res[0] != 1:
        sigs = set()
        for alt in d["documented_alternatives"]:
            ra = clirun13.run_one(build.cli("asan"), d["args"], alt.encode("latin-1"), clirun13.SAN_ENV, 60.0)
            sigs.add(judge(d["args"], alt.encode("latin-1"), ra)[5])
        if res[5] not in sigs:
            bad.append(("out-of-range-accepted", "exit %r, answer differs from that of every documented value" % res[0]))
    if d.get("compare_file"):
        tmp = "/var/tmp/c14_replay_%d.in" % os.getpid()
        try:
            with open(tmp, "wb") as fh:
                fh.write(data)
            opt = d["args"][0][:-1]
            r2 = clirun13.run_one(build.cli("asan"), [opt + tmp], None, clirun13.SAN_ENV, 60.0)
            res2 = judge([opt + tmp], None, r2)
            if (res[0], res[3], res[4]) != (res2[0], res2[3], res2[4]):
                bad.append(("stdin-vs-file", "exit %r/%r" % (res[0], res2[0])))
        finally:
            if os.path.exists(tmp):
                os.remove(tmp)
    for pth in made:
        os.remove(pth)
    for cls, detail in bad:
        print("replay: %s: %s" % (cls, detail))
    if bad:
        print("VIOLATION property=C14 replay=%s" % path)
        return 1
    print("replay: holds now")
    return 0
