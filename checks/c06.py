"""C06 - MSSM a_mu is invariant under the joint sign flip of mu, M1, M2, M3 and all A_f.

base points x tan(beta) in {1.5, 10, 80} x all 256 sign patterns of (mu, M1, M2, M3, At, Ab, Atau, Amu);
every pattern is paired with its complete flip (128 pairs per base point and tan(beta)) and every
function of gm2_1loop.hpp / gm2_2loop.hpp / gm2_uncertainty.hpp, every physical helper of
gm2_1loop_helpers.hpp / gm2_2loop_helpers.hpp (with and without tan(beta) resummation) and every mass
is compared."""
import itertools
import multiprocessing as mp
import os

import numpy as np

import build
import mssmrun
from core import hexf, unhex

META = dict(
    level="exploration",
    technique="exhaustive enumeration of all 256 sign patterns per base point and tan(beta), metamorphic oracle: pattern vs. complete flip on every public and helper quantity",
    text="For 8 realistic on-shell base points (three independent generations, all trilinears non-zero) x tan(beta) in {1.5,10,80}, all 256 sign patterns of (mu,M1,M2,M3,At,Ab,Atau,Amu) are evaluated with calculate_masses(); each pattern is compared with its complete flip on ~300 numbers: all 1L/2L totals and components with and without tan(beta) resummation, the leading-log sub-contributions, Delta_mu/tau/b, tan_beta_cor, the couplings AAC/AAN/BBC/BBN, x_im/x_k, the 2L(a) lambda matrices, delta_g1.., uncertainties, all DR-bar and pole masses, resummed Yukawas (relative 1e-9). Pairs where the spectrum calculation throws are counted and skipped (both members must then throw the same way). Says nothing about magnitudes off the base points.",
    note="trusted: field-redefinition invariance of the MSSM Lagrangian (the oracle is the relation itself, no reference numbers); mixing matrices themselves are basis dependent and not compared",
    design_ref="3/C06")

HARNESSES = [(("mssm", "plain", ["mssm.cpp"]), {})]

TBS_QUICK = [1.5, 10.0, 80.0]
TBS_THOROUGH = [1.5, 3.0, 10.0, 30.0, 50.0, 80.0]
TOL = 1e-9
PATTERNS = list(itertools.product((1.0, -1.0), repeat=8))
# groups of quantities that are sums of the listed parts: a value that is small through cancellation is
# compared relative to 1e-4 of the largest part as well (double rounding of the parts: 1e-16/1e-13 margin)
GROUPS = {
    "1L": ["amu1L", "amu1L_nonres", "unc0L", "amu1LChi0", "amu1LChipm", "nr.amu1LChi0", "nr.amu1LChipm"],
    "2L": ["amu2L", "amu2L_nonres", "unc1L", "amu2LFSfapprox", "amu2LFSfapprox_nonres", "amu2LChipmPhotonic",
           "amu2LChi0Photonic", "amu2LaSferm", "amu2LaCha", "nr.amu2LFSfapprox", "nr.amu2LFSfapprox_nonres",
           "nr.amu2LChipmPhotonic", "nr.amu2LChi0Photonic", "nr.amu2LaSferm", "nr.amu2LaCha"],
    "1Lapprox": ["amu1Lapprox", "amu1Lapprox_nonres", "amu1LWHnu", "amu1LWHmuL", "amu1LBHmuL", "amu1LBHmuR", "amu1LBmuLmuR"],
    "2Lapprox": ["amu2LWHnu", "amu2LWHmuL", "amu2LBHmuL", "amu2LBHmuR", "amu2LBmuLmuR"],
}
SKIP = {"sig_lo"}
EPS = 2.0 ** -52
# quantities that carry a mass-eigenstate index -> sectors whose eigenvectors enter
STATE_INDEXED = {"AAN": ("Chi", "Sm"), "BBN": ("Chi", "Sm"), "AAC": ("Cha",), "BBC": ("Cha",),
                 "lambda_mu_cha": ("Cha",), "lambda_stop": ("St",), "lambda_sbot": ("Sb",), "lambda_stau": ("Stau",)}


def conditioning(lay, v):
    """||M||/gap per sector from the reported masses (mass matrices for fermions, squared for scalars)"""
    out = {}
    for sct, name, sq in (("Chi", "MChi", False), ("Cha", "MCha", False), ("Sm", "MSm", True), ("St", "MSt", True),
                          ("Sb", "MSb", True), ("Stau", "MStau", True)):
        m = np.sort(v[mssmrun.col(lay, name)] ** (2 if sq else 1))
        gap = np.diff(m).min()
        out[sct] = float(m.max() / gap) if gap > 0 else float("inf")
    return out


def compare(lay, a, b):
    """list of (quantity, element index, x, y, rel) for which |x-y| > 1e-9 max(|x|,|y|) + floor"""
    out, worst = [], {}
    grp = {}
    groups = [[n for n in names if n in lay] for names in GROUPS.values()]
    groups += [["nr." + n for n in GROUPS[g] if "nr." + n in lay] for g in ("1Lapprox", "2Lapprox")]
    for names in groups:
        S = max([abs(v[lay[n][0]]) for n in names for v in (a, b)] or [0.0])
        for n in names:
            grp[n] = S
    kap = conditioning(lay, a)
    for n, (off, ln) in lay.items():
        if n in SKIP or n == "__n__" or ln == 0:
            continue
        x, y = a[off:off + ln], b[off:off + ln]
        if ln > 1:
            floor = 1e-13 * max(np.abs(x).max(), np.abs(y).max())
        else:
            floor = 1e-13 * grp.get(n, 0.0)
        # per-state couplings of nearly degenerate mass eigenstates are only defined up to
        # (rounding of the mass matrix)/(eigenvalue gap): 256 eps ||M||/gap of the sectors they are built from
        k_ = sum(kap[sct] for sct in STATE_INDEXED.get(n[3:] if n.startswith("nr.") else n, ()))
        if k_:
            floor += 256 * EPS * k_ * max(np.abs(x).max(), np.abs(y).max())
        den = np.maximum(np.abs(x), np.abs(y))
        diff = np.abs(x - y)
        bad = ~(diff <= TOL * den + floor)          # NaN counts as failure
        with np.errstate(all="ignore"):
            rel = np.where(den > 0, diff / den, 0.0)
        worst[n] = float(np.nanmax(rel)) if np.isfinite(rel).any() else float("inf")
        for j in np.nonzero(bad)[0]:
            out.append((n, int(j), float(x[j]), float(y[j]), float(rel[j])))
    return out, worst


def _worker(job):
    base, tb = job
    lay = mssmrun.layout("plain")["O"]
    pts = [mssmrun.os_point(base, tb, s) for s in PATTERNS]
    res = mssmrun.run_os(pts, "plain")
    idx = {p: i for i, p in enumerate(PATTERNS)}
    fails, worst, skipped, compared, skip_reasons = [], {}, 0, [], {}
    for p in PATTERNS:
        if p[0] < 0:
            continue                      # each unordered pair once: the member with mu > 0
        q = tuple(-x for x in p)
        a, b = res[idx[p]], res[idx[q]]
        if a[0] != "OK" or b[0] != "OK":
            if a[0] != b[0] or a[1:] != b[1:]:
                fails.append((p, "status", "spectrum status differs between a point and its flip: %r vs %r" % (a[:3] if a[0] != "OK" else "OK", b[:3] if b[0] != "OK" else "OK")))
            skipped += 1
            r = a if a[0] != "OK" else b
            k = "%s: %s" % (r[1], r[2][:60])
            skip_reasons[k] = skip_reasons.get(k, 0) + 1
            continue
        bad, w = compare(lay, a[1], b[1])
        for k, v in w.items():
            worst[k] = max(worst.get(k, 0.0), v)
        compared.append(p)
        seen = set()
        for n, j, x, y, rel in bad:
            if n in seen:
                continue
            seen.add(n)
            fails.append((p, n, "%s[%d] = %r at signs(mu,M1,M2,M3,At,Ab,Atau,Amu)=%r but %r at the completely flipped point (rel. diff %.3e)"
                          % (n, j, x, list(p), y, rel)))
    return base, tb, fails, worst, skipped, compared, skip_reasons


def run(ctx):
    build.ensure("plain")
    mssmrun.exe("plain")
    lay = mssmrun.layout("plain")["O"]
    tbs = TBS_QUICK if ctx.quick else TBS_THOROUGH
    jobs = [(b, tb) for b in mssmrun.BASE_POINTS for tb in tbs]
    worst, nskip, ncmp, reasons = {}, 0, 0, {}
    with mp.Pool(min(16, os.cpu_count() or 4)) as pool:
        for base, tb, fails, w, skipped, compared, sr in pool.imap(_worker, jobs):
            ctx.evals(len(PATTERNS))
            nskip += skipped
            ncmp += len(compared)
            for k, v in sr.items():
                reasons[k] = reasons.get(k, 0) + v
            for k, v in w.items():
                worst[k] = max(worst.get(k, 0.0), v)
            for p in compared:
                ctx.nontrivial((base, tb, p))
            for p, n, what in fails:
                ctx.fail("%s" % n, "%s  [base point %s, tan(beta)=%g]" % (what, base, tb),
                         {"base": base, "tb": hexf(tb), "signs": list(p)})
            if compared:
                ctx.sample({"base": base, "tb": tb, "signs": list(compared[len(compared) // 2]), "pairs_compared": len(compared), "pairs_skipped": skipped})
    nq = sum(1 for n in lay if n not in SKIP and n != "__n__")
    ctx.note("pairs_total", len(jobs) * 128)
    ctx.note("pairs_compared", ncmp)
    ctx.note("pairs_skipped(threw/problem)", nskip)
    ctx.note("skip_reasons", reasons)
    ctx.note("quantities_compared_per_pair", nq)
    ctx.note("numbers_compared_per_pair", lay["__n__"][0] - 1)
    top = sorted(worst.items(), key=lambda kv: -kv[1])[:12]
    ctx.note("largest_relative_differences", {k: float("%.3g" % v) for k, v in top})
    ctx.assumptions += [
        "SM input fixed to the values of input/example.gm2; magnitudes only at the 8 base points",
        "first/second-generation A_u, A_d follow the sign of A_t, A_b and A_e(1,1) that of A_tau (they flip with the complete flip)",
        "a quantity that is an exact sum of listed parts may differ by 1e-13 of the largest part (double rounding of the parts) in addition to 1e-9 relative"]
    return ctx.finish(
        "8 base points x tan(beta) %r x all 256 sign patterns of (mu,M1,M2,M3,At,Ab,Atau,Amu); each unordered pair {pattern, complete flip} compared once; "
        "distinct = (base point, tan beta, sign pattern with mu>0) of pairs whose spectrum calculation succeeded" % (tbs,),
        {})


def replay(ctx, path):
    import json
    d = json.load(open(path))
    dd = d["data"]
    mssmrun.exe("plain")
    lay = mssmrun.layout("plain")["O"]
    p = tuple(float(x) for x in dd["signs"])
    q = tuple(-x for x in p)
    tb = unhex(dd["tb"])
    a, b = mssmrun.run_os([mssmrun.os_point(dd["base"], tb, p), mssmrun.os_point(dd["base"], tb, q)], "plain")
    if a[0] != "OK" or b[0] != "OK":
        if a[0] != b[0] or a[1:] != b[1:]:
            print("replay: status differs: %r vs %r" % (a[:3], b[:3]))
            print("VIOLATION property=C06 replay=%s" % path)
            return 1
        print("replay: both points throw identically (%r): skipped" % (a[1:3],))
        return 0
    bad, _ = compare(lay, a[1], b[1])
    for n, j, x, y, rel in bad[:10]:
        print("replay: %s[%d] = %r vs %r at the flipped point (rel %.3e)" % (n, j, x, y, rel))
    if bad:
        print("VIOLATION property=C06 replay=%s" % path)
        return 1
    print("replay: holds now (all %d numbers agree to 1e-9)" % (lay["__n__"][0] - 1))
    return 0
