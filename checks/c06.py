"""C06 - MSSM a_mu is invariant under the joint sign flip of mu, M1, M2, M3 and all A_f.

base points x tan(beta) in {1.5, 10, 80} x all 256 sign patterns of (mu, M1, M2, M3, At, Ab, Atau, Amu);
every pattern is paired with its complete flip (128 pairs per base point and tan(beta)) and every
function of gm2_1loop.hpp / gm2_2loop.hpp / gm2_uncertainty.hpp, every physical helper of
gm2_1loop_helpers.hpp / gm2_2loop_helpers.hpp (with and without tan(beta) resummation) and every mass
is compared."""
import itertools
import multiprocessing as mp
import os

import numpy as np

import build
import mssmrun
from core import hexf, unhex

META = dict(
    level="exploration",
    technique="exhaustive enumeration of all 256 sign patterns per base point and tan(beta), metamorphic oracle: pattern vs. complete flip on every public and helper quantity",
    text="For 8 realistic on-shell base points (three independent generations, all trilinears non-zero) plus hierarchy points that realise every one of the 120 orderings of (|mu|,|M1|,|M2|,m_smuonL,m_smuonR) (so that each is the lightest / heaviest scale somewhere, staus following M2 and mu) with the gluino below or above all squarks, x tan(beta) in {1.5,10,80} (thorough: 6 values), all 256 sign patterns of (mu,M1,M2,M3,At,Ab,Atau,Amu) are evaluated with calculate_masses(); each pattern is compared with its complete flip on ~300 numbers: all 1L/2L totals and components with and without tan(beta) resummation, the leading-log sub-contributions, Delta_mu/tau/b, tan_beta_cor, the couplings AAC/AAN/BBC/BBN, x_im/x_k, the 2L(a) lambda matrices, delta_g1.., uncertainties, all DR-bar and pole masses, resummed Yukawas (relative 1e-9). Pairs where the spectrum calculation throws are counted and skipped (both members must then throw the same way). Each flipped partner is additionally produced a second way: the already evaluated model of the original point (a copy of it; thorough: also the object itself) gets the flipped mu, M_i, A_f through the public setters and calculate_masses() is called again; the same comparison is required. A hierarchy dimension is enumerated as well: for one base point per ordering class (5 quick / 20 thorough) every single dimensionful parameter (mu, M1, M2, M3, MA, each of the 15 soft masses, each of the 9 A_f) and every pair among (M1, M2, mu) is scaled by 10^e, e in {2,..,7} (thorough {1,2,3,3.5,4,4.5,5,6,7,8,9,10}), tan(beta) in {2,10,50}, every sign pattern of (mu, M1, M2) on both members of the pair; same comparison. Non-finite results that are identical on both members are reported under their own key. What the unchanged library does not fulfil there is listed in known findings (heavy M2, non-finite results for mass ratios beyond 1e8), not excluded. Says nothing about magnitudes off the base points.",
    note="trusted: field-redefinition invariance of the MSSM Lagrangian (the oracle is the relation itself, no reference numbers); mixing matrices themselves are basis dependent and not compared",
    design_ref="3/C06")

HARNESSES = [(("mssm", "plain", ["mssm.cpp"]), {})]

TBS_QUICK = [1.5, 10.0, 80.0]
TBS_THOROUGH = [1.5, 3.0, 10.0, 30.0, 50.0, 80.0]
TOL = 1e-9
PATTERNS = list(itertools.product((1.0, -1.0), repeat=8))
# groups of quantities that are sums of the listed parts: a value that is small through cancellation is
# compared relative to 1e-4 of the largest part as well (double rounding of the parts: 1e-16/1e-13 margin)
GROUPS, STATE_INDEXED, compare_block, compare = mssmrun.GROUPS, mssmrun.STATE_INDEXED, mssmrun.compare_block, mssmrun.compare
SKIP = mssmrun.SKIP


def base_list(quick):
    """8 benchmark-derived points + the hierarchy points: all 120 orderings of (|mu|,|M1|,|M2|,m_smuL,m_smuR);
    quick: gluino lighter / heavier than the squarks alternating with the ordering, thorough: both"""
    hier = sorted(mssmrun.HIER_POINTS)
    if quick:
        hier = [h for i, h in enumerate(hier) if (i // 2 + i) % 2 == 0]      # one of g0/g1 per ordering, alternating
    return list(mssmrun.BENCH_POINTS) + hier


def ordering_class(base, p):
    """(lightest, heaviest, full ordering) of (|mu|,|M1|,|M2|,m_smuL,m_smuR) and gluino/3rd-gen-squark relation"""
    b = mssmrun.BASE_POINTS[base]
    v = sorted([(b["Mu"], "Mu"), (b["M1"], "M1"), (b["M2"], "M2"), (b["msl"][1], "msl2"), (b["mse"][1], "mse2")])
    sq = [b["msq"][2], b["msu"][2], b["msd"][2]]
    glu = "glu<sq3" if b["M3"] < min(sq) else ("glu>sq3" if b["M3"] > max(sq) else "glu~sq3")
    return v[0][1], v[-1][1], "<=".join(n for _, n in v), glu


# ------------------------------------------------------------------ hierarchy dimension
# The property's domain has no upper bound on mass ratios.  Shortcuts for heavy particles ("if M > 1e4 m skip
# the term") are keyed on one parameter being orders of magnitude above the others - with a forgotten abs such a
# shortcut is taken by one member of a flip pair only.  So: for a set of base ordering classes every single
# dimensionful parameter and every pair of gaugino / higgsino parameters is scaled by 10^e, every sign pattern of
# (mu, M1, M2) on both members of the pair, tan(beta) in {2, 10, 50}.
HIER_E_QUICK = [2.0, 3.0, 4.0, 5.0, 6.0, 7.0]                       # at least one value in every decade
HIER_E_THOROUGH = [1.0, 2.0, 3.0, 3.5, 4.0, 4.5, 5.0, 6.0, 7.0, 8.0, 9.0, 10.0]
HIER_TBS = [2.0, 10.0, 50.0]
SOFT = ["ml2", "me2", "mq2", "mu2", "md2"]
TRIL = ["Ae", "Ad", "Au"]
SCALED_SETS = [("Mu",), ("M1",), ("M2",), ("M3",), ("MA",)] + [("%s[%d]" % (k, i),) for k in SOFT for i in range(3)] \
    + [("%s[%d]" % (k, i),) for k in TRIL for i in range(3)] + [("M1", "M2"), ("M1", "Mu"), ("M2", "Mu")]
HIER_PATTERNS = [(1.0, s1, s2, 1.0, 1.0, 1.0, 1.0, 1.0) for s1 in (1.0, -1.0) for s2 in (1.0, -1.0)]   # partner = complete flip


def hier_bases(quick):
    """ordering classes of (|mu|,|M1|,|M2|,m_smuL,m_smuR): quick one per lightest parameter (5), thorough one per
    (lightest, heaviest) (20); gluino below / above the squarks alternating"""
    out, seen = [], set()
    for i, name in enumerate(sorted(mssmrun.HIER_POINTS)):
        lo, hi = ordering_class(name, None)[:2]
        key = lo if quick else (lo, hi)
        want_g = "g%d" % (len(seen) % 2)
        if key in seen or not name.endswith(want_g):
            continue
        seen.add(key)
        out.append(name)
    return out


def hier_point(base, tb, signs, sset, f):
    p = mssmrun.os_point(base, tb, signs)
    for nm in sset:
        if "[" in nm:
            k, i = nm[:-3], int(nm[-2])
            p[k][i] *= (f * f if k in SOFT else f)
        else:
            p[nm] *= f
    return p


def size_class(rel):
    import math
    if not rel < float("inf"):
        return "nonfinite"
    d = min(-1, max(-9, int(math.floor(math.log10(rel))))) if rel > 0 else -9
    return "1e%d..1e%d" % (d, d + 1)


def col_names(lay):
    out = [None] * lay["__n__"][0]
    for n, (off, ln) in lay.items():
        for c in range(off, off + ln):
            out[c] = n
    return out


CHI0 = ("Chi0", "amu1L", "amu2L", "unc0L", "unc1L", "AAN", "BBN", "x_im", "MChi")


def qclass(n):
    """chi0: quantities that contain the neutralino sector (its 4x4 Takagi factorisation); other: the rest"""
    b = n[3:] if n.startswith("nr.") else n
    if b in ("amu1L", "amu1L_nonres", "amu2L", "amu2L_nonres", "unc0L", "unc1L", "AAN", "BBN", "x_im", "MChi", "pole_MChi") or "Chi0" in b:
        return "chi0"
    return "other"


def root_cause(qs):
    """first non-finite quantity in the order masses -> couplings -> contributions (names the sector that broke)"""
    for pref in ("MS", "Mhh", "MAh", "MChi", "MCha", "x_", "lambda", "tan_alpha", "delta", "amu1L", "amu2L", "unc"):
        for q in qs:
            if q.startswith(pref):
                return q
    return qs[0]


def _hier_worker(job):
    base, tb, e = job
    f = 10.0 ** e
    lay = mssmrun.layout("plain")["O"]
    cases = [(sset, p) for sset in SCALED_SETS for p in HIER_PATTERNS]
    pts = []
    for sset, p in cases:
        pts.append(hier_point(base, tb, p, sset, f))
        pts.append(hier_point(base, tb, tuple(-x for x in p), sset, f))
    res = mssmrun.run_os(pts, "plain")
    fails, skipped, reasons, worst, compared = [], 0, {}, {}, []
    ok = []
    for i, (sset, p) in enumerate(cases):
        a, b = res[2 * i], res[2 * i + 1]
        if a[0] != "OK" or b[0] != "OK":
            if a[0] != b[0] or a[1:] != b[1:]:
                fails.append((sset, p, "status", "spectrum status differs between a point and its flip: %r vs %r"
                              % (a[:3] if a[0] != "OK" else "OK", b[:3] if b[0] != "OK" else "OK")))
            skipped += 1
            r = a if a[0] != "OK" else b
            k = "%s: %s" % (r[1], r[2][:50])
            reasons[k] = reasons.get(k, 0) + 1
            continue
        ok.append(i)
    if ok:
        A = np.stack([res[2 * i][1] for i in ok])
        B = np.stack([res[2 * i + 1][1] for i in ok])
        # non-finite results: identical on both members (the symmetry is not what fails there, the evaluation is:
        # reported under its own key) or different (a violation); the finite quantities are compared as usual
        nfa, nfb = ~np.isfinite(A), ~np.isfinite(B)
        names = col_names(lay)
        for r in np.nonzero((nfa | nfb).any(axis=1))[0]:
            sset, p = cases[ok[r]]
            cols = np.nonzero(nfa[r] | nfb[r])[0]
            same = all((np.isnan(A[r, c]) and np.isnan(B[r, c])) or A[r, c] == B[r, c] for c in cols)
            qs = sorted({names[c] for c in cols if not names[c].startswith("nr.")}) or sorted({names[c] for c in cols})
            if same:
                # identical non-finite values on both members: the flip symmetry holds (C06 says nothing about
                # finiteness; that is C11/C16); counted in the evidence, not a failure of C06
                k = "nonfinite-identical: %s %s" % (root_cause(qs), "+".join(sset) if isinstance(sset, (list, tuple)) else sset)
                reasons[k] = reasons.get(k, 0) + 1
                continue
            fails.append((sset, p, "nonfinite-asymmetric:" + root_cause(qs),
                          "non-finite results DIFFERENT on the two members: %s" % ", ".join("%s=%r/%r" % (names[c], A[r, c], B[r, c]) for c in cols[:6])))
        A = np.where(nfa | nfb, 0.0, A)
        B = np.where(nfa | nfb, 0.0, B)
        bads, worst = compare_block(lay, A, B)
        for i, bad in zip(ok, bads):
            sset, p = cases[i]
            compared.append((sset, p))
            seen = set()
            for n, j, x, y, rel in bad:
                if n in seen:
                    continue
                seen.add(n)
                fails.append((sset, p, "%s:%s:%s" % (qclass(n), n, size_class(rel)),
                              "%s[%d] = %r at signs(mu,M1,M2)=%r but %r at the completely flipped point (rel. diff %.3e)"
                              % (n, j, x, list(p[:3]), y, rel)))
    return base, tb, e, fails, skipped, reasons, worst, compared


# ------------------------------------------------------------------ near-degenerate strata
# Fast paths "if x is within 1e-3 of 1" tested on a SIGNED ratio are taken by one member of a flip pair only.  So
# every pair and triple of (|mu|, |M1|, |M2|, msl(2,2), mse(2,2), m_sneutrino) is put within small relative
# offsets of one another (first member on the common scale, the others at different offsets so that no two are
# exactly equal unless the offset is 0), every sign pattern of (mu, M1, M2) paired with its complete flip.
DG_NAMES = ["Mu", "M1", "M2", "msl2", "mse2", "msv"]
DG_OFFS = [0.0, 1e-6, -1e-6, 2e-4, -2e-4, 5e-4, -5e-4, 2e-3, -2e-3, 1e-2, -1e-2]
DG_TBS = [2.0, 10.0, 50.0]
DG_SCALES = [400.0]
DG_PATTERNS = [(1.0, s1, s2, 1.0, 1.0, 1.0, 1.0, 1.0) for s1 in (1.0, -1.0) for s2 in (1.0, -1.0)]


def dg_configs():
    out = []
    for n in (2, 3):
        for sset in itertools.combinations(DG_NAMES, n):
            if "msl2" in sset and "msv" in sset:
                continue                     # the sneutrino mass is fixed by msl(2,2)
            for i, o in enumerate(DG_OFFS):
                offs = [0.0, o] + ([DG_OFFS[(i + 2) % len(DG_OFFS)]] if n == 3 else [])
                out.append(tuple(zip(sset, offs)))
    return out


def dg_base(S, tb, cfg):
    import math
    val = {"Mu": 2.6 * S, "M1": 2.0 * S, "M2": 2.3 * S, "msl2": 1.7 * S, "mse2": 1.45 * S}
    c = dict(cfg)
    for k_, o in c.items():
        if k_ != "msv":
            val[k_] = S * (1 + o)
    if "msv" in c:      # choose msl(2,2) such that the tree-level sneutrino mass sits at S (1 + offset)
        c2b = (1 - tb * tb) / (1 + tb * tb)
        val["msl2"] = math.sqrt((S * (1 + c["msv"])) ** 2 - 0.5 * 91.1876 ** 2 * c2b)
    return dict(Mu=val["Mu"], M1=val["M1"], M2=val["M2"], M3=2.2 * S, MA=1.9 * S, Q=S,
                msl=[2.1 * S, val["msl2"], 2.05 * S], mse=[1.95 * S, val["mse2"], 2.15 * S],
                msq=[3.0 * S, 3.1 * S, 2.9 * S], msu=[3.05 * S, 3.15 * S, 2.8 * S], msd=[2.95 * S, 3.2 * S, 3.0 * S],
                Ae=[0.25 * S, 0.3 * S, 0.5 * S], Ad=[0.4 * S, 0.45 * S, 1.2 * S], Au=[0.35 * S, 0.38 * S, 0.9 * S])


def _dg_worker(job):
    S, tb, cfgs = job
    lay = mssmrun.layout("plain")["O"]
    pts, who = [], []
    for cfg in cfgs:
        mssmrun.BASE_POINTS["__dg__"] = dg_base(S, tb, cfg)
        for p in DG_PATTERNS:
            pts.append(mssmrun.os_point("__dg__", tb, p))
            pts.append(mssmrun.os_point("__dg__", tb, tuple(-x for x in p)))
            who.append((cfg, p))
    res = mssmrun.run_os(pts, "plain")
    fails, skipped, reasons, compared = [], 0, {}, []
    ok = []
    for i, (cfg, p) in enumerate(who):
        a, b = res[2 * i], res[2 * i + 1]
        if a[0] != "OK" or b[0] != "OK":
            if a[0] != b[0] or a[1:] != b[1:]:
                fails.append((cfg, p, "status", "spectrum status differs between a point and its flip: %r vs %r" % (a[:3], b[:3])))
            skipped += 1
            r = a if a[0] != "OK" else b
            reasons[r[2][:50]] = reasons.get(r[2][:50], 0) + 1
            continue
        ok.append(i)
    worst = {}
    if ok:
        A = np.stack([res[2 * i][1] for i in ok])
        B = np.stack([res[2 * i + 1][1] for i in ok])
        bads, worst = compare_block(lay, A, B)
        for i, bad in zip(ok, bads):
            cfg, p = who[i]
            compared.append((cfg, p))
            seen = set()
            for n, j, x, y, rel in bad:
                if n in seen:
                    continue
                seen.add(n)
                fails.append((cfg, p, n, "%s[%d] = %r at signs(mu,M1,M2)=%r but %r at the completely flipped point (rel. diff %.3e)" % (n, j, x, list(p[:3]), y, rel)))
    return S, tb, fails, skipped, reasons, compared, worst


def _worker(job):
    base, tb = job[:2]
    lay = mssmrun.layout("plain")["O"]
    pts = [mssmrun.os_point(base, tb, s) for s in PATTERNS]
    res = mssmrun.run_os(pts, "plain")
    idx = {p: i for i, p in enumerate(PATTERNS)}
    fails, worst, skipped, compared, skip_reasons = [], {}, 0, [], {}
    for p in PATTERNS:
        if p[0] < 0:
            continue                      # each unordered pair once: the member with mu > 0
        q = tuple(-x for x in p)
        a, b = res[idx[p]], res[idx[q]]
        if a[0] != "OK" or b[0] != "OK":
            if a[0] != b[0] or a[1:] != b[1:]:
                fails.append((p, "status", "spectrum status differs between a point and its flip: %r vs %r" % (a[:3] if a[0] != "OK" else "OK", b[:3] if b[0] != "OK" else "OK")))
            skipped += 1
            r = a if a[0] != "OK" else b
            k = "%s: %s" % (r[1], r[2][:60])
            skip_reasons[k] = skip_reasons.get(k, 0) + 1
            continue
        compared.append(p)
    if compared:
        A = np.stack([res[idx[p]][1] for p in compared])
        B = np.stack([res[idx[tuple(-x for x in p)]][1] for p in compared])
        bads, worst = compare_block(lay, A, B)
        for p, bad in zip(compared, bads):
            seen = set()
            for n, j, x, y, rel in bad:
                if n in seen:
                    continue
                seen.add(n)
                fails.append((p, n, "%s[%d] = %r at signs(mu,M1,M2,M3,At,Ab,Atau,Amu)=%r but %r at the completely flipped point (rel. diff %.3e)"
                              % (n, j, x, list(p), y, rel)))
    # the flipped partner built on a re-used object: the evaluated model of p (quick: a copy of it; thorough:
    # also the object itself) gets the flipped mu, M_i, A_f through the public setters + calculate_masses()
    nre = 0
    if compared:
        mode = job[2]
        fams = mssmrun.run_osf([(pts[idx[p]], [pts[idx[tuple(-x for x in p)]]]) for p in compared], mode, "plain")
        for var, tag in (("chain", "reused-partner-object"), ("copy", "reused-partner-copy")):
            if var not in fams[0]:
                continue
            ok = [i for i, f in enumerate(fams) if f[var][0][0] == "OK"]
            for i, f in enumerate(fams):
                if f[var][0][0] != "OK":
                    fails.append((compared[i], tag + ":status", "the flipped partner built on the re-used model throws %r although the freshly built one does not" % (f[var][0][1:3],)))
            if ok:
                A = np.stack([res[idx[compared[i]]][1] for i in ok])
                B = np.stack([fams[i][var][0][1] for i in ok])
                bads, w2 = compare_block(lay, A, B)
                nre += len(ok)
                for k_, v_ in w2.items():
                    worst["reused:" + k_] = max(worst.get("reused:" + k_, 0.0), v_)
                for i, bad in zip(ok, bads):
                    seen = set()
                    for n, j, x, y, rel in bad:
                        if n in seen:
                            continue
                        seen.add(n)
                        fails.append((compared[i], tag + ":" + n, "%s[%d] = %r at signs=%r but %r at the completely flipped point obtained by re-using the evaluated model (%s) (rel. diff %.3e)"
                                      % (n, j, x, list(compared[i]), y, var, rel)))
    # order of the setter calls: the member p is built in the canonical order, its flipped partner in another one
    # (tan(beta) before the SM inputs, SM inputs last, all setters reversed, SM inputs overwritten), both with a
    # non-default SM input set; same comparison.  Thin subset: the benchmark-derived base points.
    if compared and base in mssmrun.BENCH_POINTS:
        sel = list(enumerate(compared))
        opts = []
        for i, p in sel:
            o, sm = 1 + i % 4, 1 + i % 3
            opts.append(mssmrun.os_point(base, tb, p, order=0, sm=sm))
            opts.append(mssmrun.os_point(base, tb, tuple(-x for x in p), order=o, sm=sm))
        ores = mssmrun.run_os(opts, "plain")
        okp = [i for i, _ in sel if ores[2 * i][0] == "OK" and ores[2 * i + 1][0] == "OK"]
        for i, p in sel:
            a, b = ores[2 * i], ores[2 * i + 1]
            if (a[0] != "OK" or b[0] != "OK") and (a[0] != b[0] or a[1:] != b[1:]):
                fails.append((p, "order%d:status" % (1 + i % 4), "spectrum status differs between a point (canonical set-up order) and its flip built in order %d: %r vs %r" % (1 + i % 4, a[:3] if a[0] != "OK" else "OK", b[:3] if b[0] != "OK" else "OK")))
        if okp:
            A = np.stack([ores[2 * i][1] for i in okp])
            B = np.stack([ores[2 * i + 1][1] for i in okp])
            bads, _ = compare_block(lay, A, B)
            nre += len(okp)
            for i, bad in zip(okp, bads):
                seen = set()
                for n, j, x, y, rel in bad:
                    if n in seen:
                        continue
                    seen.add(n)
                    fails.append((compared[i], "order%d:%s" % (1 + i % 4, n),
                                  "%s[%d] = %r at signs=%r (canonical set-up order) but %r at the completely flipped point set up in order %d, SM input set %d (rel. diff %.3e)"
                                  % (n, j, x, list(compared[i]), y, 1 + i % 4, 1 + i % 3, rel)))
    return base, tb, fails, worst, skipped, compared, skip_reasons, nre


def run(ctx):
    build.ensure("plain")
    mssmrun.exe("plain")
    lay = mssmrun.layout("plain")["O"]
    tbs = TBS_QUICK if ctx.quick else TBS_THOROUGH
    bases = base_list(ctx.quick)
    jobs = [(b, tb, 2 if ctx.quick else 3) for b in bases for tb in tbs]
    worst, nskip, ncmp, reasons, classes, per_tb = {}, 0, 0, {}, {}, {}
    nreused = 0
    with mp.Pool(min(16, os.cpu_count() or 4)) as pool:
        for base, tb, fails, w, skipped, compared, sr, nre in pool.imap(_worker, jobs):
            ctx.evals(len(PATTERNS) + nre)
            nreused += nre
            nskip += skipped
            ncmp += len(compared)
            for k, v in sr.items():
                reasons[k] = reasons.get(k, 0) + v
            for k, v in w.items():
                worst[k] = max(worst.get(k, 0.0), v)
            for p in compared:
                ctx.nontrivial((base, tb, p))
            if compared:
                oc = ordering_class(base, None)
                for key, val in (("lightest", oc[0]), ("heaviest", oc[1]), ("ordering", oc[2]), ("gluino", oc[3]),
                                 ("lightest@tb", "%s@%g" % (oc[0], tb))):
                    classes.setdefault(key, {})
                    classes[key][val] = classes[key].get(val, 0) + len(compared)
            per_tb[tb] = [per_tb.get(tb, [0, 0])[0] + len(compared), per_tb.get(tb, [0, 0])[1] + skipped]
            for p, n, what in fails:
                ctx.fail("%s" % n, "%s  [base point %s, tan(beta)=%g]" % (what, base, tb),
                         {"base": base, "tb": hexf(tb), "signs": list(p)})
            if compared:
                ctx.sample({"base": base, "tb": tb, "signs": list(compared[len(compared) // 2]), "pairs_compared": len(compared), "pairs_skipped": skipped})
    # near-degenerate strata
    dcfg = dg_configs()
    djobs = [(S, tb, dcfg[i:i + 40]) for S in DG_SCALES for tb in DG_TBS for i in range(0, len(dcfg), 40)]
    dcmp, dskip, dreasons, dworst = 0, 0, {}, {}
    with mp.Pool(min(16, os.cpu_count() or 4)) as pool:
        for S, tb, fails, skipped, sr, compared, w in pool.imap(_dg_worker, djobs):
            ctx.evals(2 * (len(compared) + skipped))
            dcmp += len(compared)
            dskip += skipped
            for k, v in sr.items():
                dreasons[k] = dreasons.get(k, 0) + v
            for k, v in w.items():
                dworst[k] = max(dworst.get(k, 0.0), v)
            for cfg, p in compared:
                ctx.nontrivial(("degenerate", S, tb, cfg, p[:3]))
            for cfg, p, n, what in fails:
                ctx.fail("degenerate:%s:%s" % (n, "~".join(k for k, _ in cfg)),
                         "%s  [near-degenerate stratum %s around %g GeV, tan(beta)=%g]" % (what, ", ".join("%s:%+g" % c for c in cfg), S, tb),
                         {"degenerate": {"S": hexf(S), "tb": hexf(tb), "cfg": [[k, hexf(o)] for k, o in cfg], "signs": list(p)}})
    ctx.note("degenerate_strata_configurations(pairs+triples x offsets)", len(dcfg))
    ctx.note("degenerate_pairs_compared", dcmp)
    ctx.note("degenerate_pairs_skipped(threw/problem)", dskip)
    ctx.note("degenerate_skip_reasons", dreasons)
    ctx.note("degenerate_largest_relative_differences", {k: float("%.3g" % v) for k, v in sorted(dworst.items(), key=lambda kv: -kv[1])[:8]})
    # hierarchy dimension
    es = HIER_E_QUICK if ctx.quick else HIER_E_THOROUGH
    hb = hier_bases(ctx.quick)
    hjobs = [(b, tb, e) for b in hb for tb in HIER_TBS for e in es]
    hcmp, hskip, hreasons, hworst, hby = 0, 0, {}, {}, {}
    with mp.Pool(min(16, os.cpu_count() or 4)) as pool:
        for base, tb, e, fails, skipped, sr, w, compared in pool.imap(_hier_worker, hjobs):
            ctx.evals(2 * len(SCALED_SETS) * len(HIER_PATTERNS))
            hcmp += len(compared)
            hskip += skipped
            for k, v in sr.items():
                hreasons[k] = hreasons.get(k, 0) + v
            for k, v in w.items():
                if v > hworst.get(k, (0.0,))[0]:
                    hworst[k] = (v, "e=%g" % e)
            hby["1e%g" % e] = [hby.get("1e%g" % e, [0, 0])[0] + len(compared), hby.get("1e%g" % e, [0, 0])[1] + skipped]
            for sset, p in compared:
                ctx.nontrivial(("hier", base, tb, e, sset, p[:3]))
            for sset, p, n, what in fails:
                t = n.split(":")
                key = ("hier:%s:%s:1e%g" % (":".join(t[:-1]), "+".join(sset), e) + ":" + t[-1]) if len(t) == 3 else "hier:%s:%s:1e%g" % (":".join(t), "+".join(sset), e)
                ctx.fail(key,
                         "%s  [hierarchy: %s x 1e%g on base %s, tan(beta)=%g]" % (what, "+".join(sset), e, base, tb),
                         {"hier": {"base": base, "tb": hexf(tb), "e": hexf(e), "sset": list(sset), "signs": list(p)}})
    ctx.note("hierarchy_base_classes", hb)
    ctx.note("hierarchy_scaled_parameter_sets", len(SCALED_SETS))
    ctx.note("hierarchy_exponents", es)
    ctx.note("hierarchy_pairs_compared", hcmp)
    ctx.note("hierarchy_pairs_skipped(threw/problem)", hskip)
    ctx.note("hierarchy_pairs_compared/skipped_by_factor", hby)
    ctx.note("hierarchy_skip_reasons", hreasons)
    ctx.note("hierarchy_largest_relative_differences",
             {k: [float("%.3g" % v[0]), v[1]] for k, v in sorted(hworst.items(), key=lambda kv: -kv[1][0])[:10]})
    nq = sum(1 for n in lay if n not in SKIP and n != "__n__")
    ctx.note("pairs_total", len(jobs) * 128)
    ctx.note("base_points", len(bases))
    ctx.note("pairs_compared_by_lightest_of(mu,M1,M2,msl2,mse2)", classes.get("lightest", {}))
    ctx.note("pairs_compared_by_heaviest_of(mu,M1,M2,msl2,mse2)", classes.get("heaviest", {}))
    ctx.note("pairs_compared_by_lightest_and_tan_beta", dict(sorted(classes.get("lightest@tb", {}).items())))
    ctx.note("distinct_full_orderings_compared", len(classes.get("ordering", {})))
    ctx.note("pairs_compared_by_gluino_vs_3rd_gen_squarks", classes.get("gluino", {}))
    ctx.note("pairs_compared/skipped_by_tan_beta", {("%g" % k): v for k, v in sorted(per_tb.items())})
    # coverage requirement: every one of the five masses is the lightest and the heaviest somewhere, and all
    # 120 orderings were actually compared (not only enumerated and skipped)
    missing = [n for n in mssmrun.HIER_NAMES if n.replace("Mu", "Mu") not in classes.get("lightest", {})] + \
              [n for n in mssmrun.HIER_NAMES if n not in classes.get("heaviest", {})]
    if missing or len(classes.get("ordering", {})) < 120:
        ctx.cap("ordering-classes-not-all-compared: missing %r, %d of 120 orderings" % (missing, len(classes.get("ordering", {}))))
    ctx.note("pairs_compared", ncmp)
    ctx.note("pairs_compared_with_partner_on_reused_model_or_in_another_setup_order", nreused)
    ctx.note("pairs_skipped(threw/problem)", nskip)
    ctx.note("skip_reasons", reasons)
    ctx.note("quantities_compared_per_pair", nq)
    ctx.note("numbers_compared_per_pair", lay["__n__"][0] - 1)
    top = sorted(worst.items(), key=lambda kv: -kv[1])[:12]
    ctx.note("largest_relative_differences", {k: float("%.3g" % v) for k, v in top})
    ctx.assumptions += [
        "SM input fixed to the values of input/example.gm2; magnitudes only at the 8 benchmark-derived base points and the hierarchy points (masses 300..2600 GeV in all 120 orderings of |mu|,|M1|,|M2|,m_smuL,m_smuR; gluino 600 or 4000 GeV)",
        "first/second-generation A_u, A_d follow the sign of A_t, A_b and A_e(1,1) that of A_tau (they flip with the complete flip)",
        "a quantity that is an exact sum of listed parts may differ by 1e-13 of the largest part (double rounding of the parts) in addition to 1e-9 relative"]
    return ctx.finish(
        "(8 benchmark-derived base points + %d hierarchy points = all 120 orderings of (|mu|,|M1|,|M2|,m_smuL,m_smuR) x gluino lighter/heavier than the squarks) "
        "x tan(beta) %r x all 256 sign patterns of (mu,M1,M2,M3,At,Ab,Atau,Amu); each unordered pair {pattern, complete flip} compared once; "
        "distinct = (base point, tan beta, sign pattern with mu>0) of pairs whose spectrum calculation succeeded" % (len(bases) - 8, tbs),
        {})


def replay(ctx, path):
    import json
    d = json.load(open(path))
    dd = d["data"]
    mssmrun.exe("plain")
    if "degenerate" in dd:
        g = dd["degenerate"]
        cfg = tuple((k, unhex(o)) for k, o in g["cfg"])
        S_, tb_, fails, skipped, reasons, _, _ = _dg_worker((unhex(g["S"]), unhex(g["tb"]), [cfg]))
        p = tuple(float(x) for x in g["signs"])
        hit = [f for f in fails if f[1] == p] or fails
        for _, pp, n, what in hit[:8]:
            print("replay: [%s] %s" % (n, what))
        if hit:
            print("VIOLATION property=C06 replay=%s" % path)
            return 1
        print("replay: holds now (near-degenerate pair agrees to 1e-9)")
        return 0
    if "hier" in dd:
        h = dd["hier"]
        base, tb, e, sset, p = h["base"], unhex(h["tb"]), unhex(h["e"]), tuple(h["sset"]), tuple(float(x) for x in h["signs"])
        global SCALED_SETS, HIER_PATTERNS
        SCALED_SETS, HIER_PATTERNS = [sset], [p]
        _, _, _, fails, skipped, reasons, _, _ = _hier_worker((base, tb, e))
        for ss, pp, n, what in fails[:10]:
            print("replay: [%s] %s" % (n, what))
        if skipped:
            print("replay: pair skipped now (%r)" % (reasons,))
        # a stored case is a violation again only if a failure outside the known findings is still there
        bad = []
        for ss, pp, n, what in fails:
            t = n.split(":")
            key = ("hier:%s:%s:1e%g" % (":".join(t[:-1]), "+".join(ss), e) + ":" + t[-1]) if len(t) == 3 else "hier:%s:%s:1e%g" % (":".join(t), "+".join(ss), e)
            import fnmatch
            if not any(fnmatch.fnmatchcase(key, f["key"]) for f in ctx.findings):
                bad.append(key)
        if bad:
            print("VIOLATION property=C06 replay=%s" % path)
            return 1
        print("replay: holds now (hierarchy pair agrees to 1e-9 apart from known findings)")
        return 0
    lay = mssmrun.layout("plain")["O"]
    p = tuple(float(x) for x in dd["signs"])
    q = tuple(-x for x in p)
    tb = unhex(dd["tb"])
    a, b = mssmrun.run_os([mssmrun.os_point(dd["base"], tb, p), mssmrun.os_point(dd["base"], tb, q)], "plain")
    if a[0] != "OK" or b[0] != "OK":
        if a[0] != b[0] or a[1:] != b[1:]:
            print("replay: status differs: %r vs %r" % (a[:3], b[:3]))
            print("VIOLATION property=C06 replay=%s" % path)
            return 1
        print("replay: both points throw identically (%r): skipped" % (a[1:3],))
        return 0
    bad, _ = compare(lay, a[1], b[1])
    for n, j, x, y, rel in bad[:10]:
        print("replay: %s[%d] = %r vs %r at the flipped point (rel %.3e)" % (n, j, x, y, rel))
    # flipped partner on the re-used evaluated model (same object and copy)
    fam = mssmrun.run_osf([(mssmrun.os_point(dd["base"], tb, p), [mssmrun.os_point(dd["base"], tb, q)])], 3, "plain")[0]
    for var in ("chain", "copy"):
        r = fam[var][0]
        if r[0] != "OK":
            print("replay: partner on re-used model (%s) throws %r" % (var, r[1:3]))
            bad = bad + [("status", 0, 0.0, 0.0, 0.0)]
            continue
        b2, _ = compare(lay, a[1], r[1])
        for n, j, x, y, rel in b2[:10]:
            print("replay: %s[%d] = %r vs %r at the flipped point built on the re-used model (%s) (rel %.3e)" % (n, j, x, y, var, rel))
        bad = bad + b2
    # flipped partner set up in a non-canonical order of the setter calls, non-default SM input sets
    for o in (1, 2, 3, 4):
        for sm in (1, 2, 3):
            ra, rb = mssmrun.run_os([mssmrun.os_point(dd["base"], tb, p, order=0, sm=sm), mssmrun.os_point(dd["base"], tb, q, order=o, sm=sm)], "plain")
            if ra[0] != "OK" or rb[0] != "OK":
                if ra[0] != rb[0] or ra[1:] != rb[1:]:
                    print("replay: status differs for set-up order %d, SM set %d: %r vs %r" % (o, sm, ra[:3], rb[:3]))
                    bad = bad + [("status", 0, 0.0, 0.0, 0.0)]
                continue
            b3, _ = compare(lay, ra[1], rb[1])
            for n, j, x, y, rel in b3[:3]:
                print("replay: %s[%d] = %r vs %r at the flipped point set up in order %d, SM set %d (rel %.3e)" % (n, j, x, y, o, sm, rel))
            bad = bad + b3
    if bad:
        print("VIOLATION property=C06 replay=%s" % path)
        return 1
    print("replay: holds now (all %d numbers agree to 1e-9)" % (lay["__n__"][0] - 1))
    return 0
