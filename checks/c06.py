"""C06 - MSSM a_mu is invariant under the joint sign flip of mu, M1, M2, M3 and all A_f.

base points x tan(beta) in {1.5, 10, 80} x all 256 sign patterns of (mu, M1, M2, M3, At, Ab, Atau, Amu);
every pattern is paired with its complete flip (128 pairs per base point and tan(beta)) and every
function of gm2_1loop.hpp / gm2_2loop.hpp / gm2_uncertainty.hpp, every physical helper of
gm2_1loop_helpers.hpp / gm2_2loop_helpers.hpp (with and without tan(beta) resummation) and every mass
is compared."""
import itertools
import multiprocessing as mp
import os

import numpy as np

import build
import mssmrun
from core import hexf, unhex

META = dict(
    level="exploration",
    technique="exhaustive enumeration of all 256 sign patterns per base point and tan(beta), metamorphic oracle: pattern vs. complete flip on every public and helper quantity",
    text="For 8 realistic on-shell base points (three independent generations, all trilinears non-zero) plus hierarchy points that realise every one of the 120 orderings of (|mu|,|M1|,|M2|,m_smuonL,m_smuonR) (so that each is the lightest / heaviest scale somewhere, staus following M2 and mu) with the gluino below or above all squarks, x tan(beta) in {1.5,10,80} (thorough: 6 values), all 256 sign patterns of (mu,M1,M2,M3,At,Ab,Atau,Amu) are evaluated with calculate_masses(); each pattern is compared with its complete flip on ~300 numbers: all 1L/2L totals and components with and without tan(beta) resummation, the leading-log sub-contributions, Delta_mu/tau/b, tan_beta_cor, the couplings AAC/AAN/BBC/BBN, x_im/x_k, the 2L(a) lambda matrices, delta_g1.., uncertainties, all DR-bar and pole masses, resummed Yukawas (relative 1e-9). Pairs where the spectrum calculation throws are counted and skipped (both members must then throw the same way). Each flipped partner is additionally produced a second way: the already evaluated model of the original point (a copy of it; thorough: also the object itself) gets the flipped mu, M_i, A_f through the public setters and calculate_masses() is called again; the same comparison is required. Says nothing about magnitudes off the base points.",
    note="trusted: field-redefinition invariance of the MSSM Lagrangian (the oracle is the relation itself, no reference numbers); mixing matrices themselves are basis dependent and not compared",
    design_ref="3/C06")

HARNESSES = [(("mssm", "plain", ["mssm.cpp"]), {})]

TBS_QUICK = [1.5, 10.0, 80.0]
TBS_THOROUGH = [1.5, 3.0, 10.0, 30.0, 50.0, 80.0]
TOL = 1e-9
PATTERNS = list(itertools.product((1.0, -1.0), repeat=8))
# groups of quantities that are sums of the listed parts: a value that is small through cancellation is
# compared relative to 1e-4 of the largest part as well (double rounding of the parts: 1e-16/1e-13 margin)
GROUPS, STATE_INDEXED, compare_block, compare = mssmrun.GROUPS, mssmrun.STATE_INDEXED, mssmrun.compare_block, mssmrun.compare
SKIP = mssmrun.SKIP


def base_list(quick):
    """8 benchmark-derived points + the hierarchy points: all 120 orderings of (|mu|,|M1|,|M2|,m_smuL,m_smuR);
    quick: gluino lighter / heavier than the squarks alternating with the ordering, thorough: both"""
    hier = sorted(mssmrun.HIER_POINTS)
    if quick:
        hier = [h for i, h in enumerate(hier) if (i // 2 + i) % 2 == 0]      # one of g0/g1 per ordering, alternating
    return list(mssmrun.BENCH_POINTS) + hier


def ordering_class(base, p):
    """(lightest, heaviest, full ordering) of (|mu|,|M1|,|M2|,m_smuL,m_smuR) and gluino/3rd-gen-squark relation"""
    b = mssmrun.BASE_POINTS[base]
    v = sorted([(b["Mu"], "Mu"), (b["M1"], "M1"), (b["M2"], "M2"), (b["msl"][1], "msl2"), (b["mse"][1], "mse2")])
    sq = [b["msq"][2], b["msu"][2], b["msd"][2]]
    glu = "glu<sq3" if b["M3"] < min(sq) else ("glu>sq3" if b["M3"] > max(sq) else "glu~sq3")
    return v[0][1], v[-1][1], "<=".join(n for _, n in v), glu


def _worker(job):
    base, tb = job[:2]
    lay = mssmrun.layout("plain")["O"]
    pts = [mssmrun.os_point(base, tb, s) for s in PATTERNS]
    res = mssmrun.run_os(pts, "plain")
    idx = {p: i for i, p in enumerate(PATTERNS)}
    fails, worst, skipped, compared, skip_reasons = [], {}, 0, [], {}
    for p in PATTERNS:
        if p[0] < 0:
            continue                      # each unordered pair once: the member with mu > 0
        q = tuple(-x for x in p)
        a, b = res[idx[p]], res[idx[q]]
        if a[0] != "OK" or b[0] != "OK":
            if a[0] != b[0] or a[1:] != b[1:]:
                fails.append((p, "status", "spectrum status differs between a point and its flip: %r vs %r" % (a[:3] if a[0] != "OK" else "OK", b[:3] if b[0] != "OK" else "OK")))
            skipped += 1
            r = a if a[0] != "OK" else b
            k = "%s: %s" % (r[1], r[2][:60])
            skip_reasons[k] = skip_reasons.get(k, 0) + 1
            continue
        compared.append(p)
    if compared:
        A = np.stack([res[idx[p]][1] for p in compared])
        B = np.stack([res[idx[tuple(-x for x in p)]][1] for p in compared])
        bads, worst = compare_block(lay, A, B)
        for p, bad in zip(compared, bads):
            seen = set()
            for n, j, x, y, rel in bad:
                if n in seen:
                    continue
                seen.add(n)
                fails.append((p, n, "%s[%d] = %r at signs(mu,M1,M2,M3,At,Ab,Atau,Amu)=%r but %r at the completely flipped point (rel. diff %.3e)"
                              % (n, j, x, list(p), y, rel)))
    # the flipped partner built on a re-used object: the evaluated model of p (quick: a copy of it; thorough:
    # also the object itself) gets the flipped mu, M_i, A_f through the public setters + calculate_masses()
    nre = 0
    if compared:
        mode = job[2]
        fams = mssmrun.run_osf([(pts[idx[p]], [pts[idx[tuple(-x for x in p)]]]) for p in compared], mode, "plain")
        for var, tag in (("chain", "reused-partner-object"), ("copy", "reused-partner-copy")):
            if var not in fams[0]:
                continue
            ok = [i for i, f in enumerate(fams) if f[var][0][0] == "OK"]
            for i, f in enumerate(fams):
                if f[var][0][0] != "OK":
                    fails.append((compared[i], tag + ":status", "the flipped partner built on the re-used model throws %r although the freshly built one does not" % (f[var][0][1:3],)))
            if ok:
                A = np.stack([res[idx[compared[i]]][1] for i in ok])
                B = np.stack([fams[i][var][0][1] for i in ok])
                bads, w2 = compare_block(lay, A, B)
                nre += len(ok)
                for k_, v_ in w2.items():
                    worst["reused:" + k_] = max(worst.get("reused:" + k_, 0.0), v_)
                for i, bad in zip(ok, bads):
                    seen = set()
                    for n, j, x, y, rel in bad:
                        if n in seen:
                            continue
                        seen.add(n)
                        fails.append((compared[i], tag + ":" + n, "%s[%d] = %r at signs=%r but %r at the completely flipped point obtained by re-using the evaluated model (%s) (rel. diff %.3e)"
                                      % (n, j, x, list(compared[i]), y, var, rel)))
    return base, tb, fails, worst, skipped, compared, skip_reasons, nre


def run(ctx):
    build.ensure("plain")
    mssmrun.exe("plain")
    lay = mssmrun.layout("plain")["O"]
    tbs = TBS_QUICK if ctx.quick else TBS_THOROUGH
    bases = base_list(ctx.quick)
    jobs = [(b, tb, 2 if ctx.quick else 3) for b in bases for tb in tbs]
    worst, nskip, ncmp, reasons, classes, per_tb = {}, 0, 0, {}, {}, {}
    nreused = 0
    with mp.Pool(min(16, os.cpu_count() or 4)) as pool:
        for base, tb, fails, w, skipped, compared, sr, nre in pool.imap(_worker, jobs):
            ctx.evals(len(PATTERNS) + nre)
            nreused += nre
            nskip += skipped
            ncmp += len(compared)
            for k, v in sr.items():
                reasons[k] = reasons.get(k, 0) + v
            for k, v in w.items():
                worst[k] = max(worst.get(k, 0.0), v)
            for p in compared:
                ctx.nontrivial((base, tb, p))
            if compared:
                oc = ordering_class(base, None)
                for key, val in (("lightest", oc[0]), ("heaviest", oc[1]), ("ordering", oc[2]), ("gluino", oc[3]),
                                 ("lightest@tb", "%s@%g" % (oc[0], tb))):
                    classes.setdefault(key, {})
                    classes[key][val] = classes[key].get(val, 0) + len(compared)
            per_tb[tb] = [per_tb.get(tb, [0, 0])[0] + len(compared), per_tb.get(tb, [0, 0])[1] + skipped]
            for p, n, what in fails:
                ctx.fail("%s" % n, "%s  [base point %s, tan(beta)=%g]" % (what, base, tb),
                         {"base": base, "tb": hexf(tb), "signs": list(p)})
            if compared:
                ctx.sample({"base": base, "tb": tb, "signs": list(compared[len(compared) // 2]), "pairs_compared": len(compared), "pairs_skipped": skipped})
    nq = sum(1 for n in lay if n not in SKIP and n != "__n__")
    ctx.note("pairs_total", len(jobs) * 128)
    ctx.note("base_points", len(bases))
    ctx.note("pairs_compared_by_lightest_of(mu,M1,M2,msl2,mse2)", classes.get("lightest", {}))
    ctx.note("pairs_compared_by_heaviest_of(mu,M1,M2,msl2,mse2)", classes.get("heaviest", {}))
    ctx.note("pairs_compared_by_lightest_and_tan_beta", dict(sorted(classes.get("lightest@tb", {}).items())))
    ctx.note("distinct_full_orderings_compared", len(classes.get("ordering", {})))
    ctx.note("pairs_compared_by_gluino_vs_3rd_gen_squarks", classes.get("gluino", {}))
    ctx.note("pairs_compared/skipped_by_tan_beta", {("%g" % k): v for k, v in sorted(per_tb.items())})
    # coverage requirement: every one of the five masses is the lightest and the heaviest somewhere, and all
    # 120 orderings were actually compared (not only enumerated and skipped)
    missing = [n for n in mssmrun.HIER_NAMES if n.replace("Mu", "Mu") not in classes.get("lightest", {})] + \
              [n for n in mssmrun.HIER_NAMES if n not in classes.get("heaviest", {})]
    if missing or len(classes.get("ordering", {})) < 120:
        ctx.cap("ordering-classes-not-all-compared: missing %r, %d of 120 orderings" % (missing, len(classes.get("ordering", {}))))
    ctx.note("pairs_compared", ncmp)
    ctx.note("pairs_compared_with_partner_on_reused_model", nreused)
    ctx.note("pairs_skipped(threw/problem)", nskip)
    ctx.note("skip_reasons", reasons)
    ctx.note("quantities_compared_per_pair", nq)
    ctx.note("numbers_compared_per_pair", lay["__n__"][0] - 1)
    top = sorted(worst.items(), key=lambda kv: -kv[1])[:12]
    ctx.note("largest_relative_differences", {k: float("%.3g" % v) for k, v in top})
    ctx.assumptions += [
        "SM input fixed to the values of input/example.gm2; magnitudes only at the 8 benchmark-derived base points and the hierarchy points (masses 300..2600 GeV in all 120 orderings of |mu|,|M1|,|M2|,m_smuL,m_smuR; gluino 600 or 4000 GeV)",
        "first/second-generation A_u, A_d follow the sign of A_t, A_b and A_e(1,1) that of A_tau (they flip with the complete flip)",
        "a quantity that is an exact sum of listed parts may differ by 1e-13 of the largest part (double rounding of the parts) in addition to 1e-9 relative"]
    return ctx.finish(
        "(8 benchmark-derived base points + %d hierarchy points = all 120 orderings of (|mu|,|M1|,|M2|,m_smuL,m_smuR) x gluino lighter/heavier than the squarks) "
        "x tan(beta) %r x all 256 sign patterns of (mu,M1,M2,M3,At,Ab,Atau,Amu); each unordered pair {pattern, complete flip} compared once; "
        "distinct = (base point, tan beta, sign pattern with mu>0) of pairs whose spectrum calculation succeeded" % (len(bases) - 8, tbs),
        {})


def replay(ctx, path):
    import json
    d = json.load(open(path))
    dd = d["data"]
    mssmrun.exe("plain")
    lay = mssmrun.layout("plain")["O"]
    p = tuple(float(x) for x in dd["signs"])
    q = tuple(-x for x in p)
    tb = unhex(dd["tb"])
    a, b = mssmrun.run_os([mssmrun.os_point(dd["base"], tb, p), mssmrun.os_point(dd["base"], tb, q)], "plain")
    if a[0] != "OK" or b[0] != "OK":
        if a[0] != b[0] or a[1:] != b[1:]:
            print("replay: status differs: %r vs %r" % (a[:3], b[:3]))
            print("VIOLATION property=C06 replay=%s" % path)
            return 1
        print("replay: both points throw identically (%r): skipped" % (a[1:3],))
        return 0
    bad, _ = compare(lay, a[1], b[1])
    for n, j, x, y, rel in bad[:10]:
        print("replay: %s[%d] = %r vs %r at the flipped point (rel %.3e)" % (n, j, x, y, rel))
    # flipped partner on the re-used evaluated model (same object and copy)
    fam = mssmrun.run_osf([(mssmrun.os_point(dd["base"], tb, p), [mssmrun.os_point(dd["base"], tb, q)])], 3, "plain")[0]
    for var in ("chain", "copy"):
        r = fam[var][0]
        if r[0] != "OK":
            print("replay: partner on re-used model (%s) throws %r" % (var, r[1:3]))
            bad = bad + [("status", 0, 0.0, 0.0, 0.0)]
            continue
        b2, _ = compare(lay, a[1], r[1])
        for n, j, x, y, rel in b2[:10]:
            print("replay: %s[%d] = %r vs %r at the flipped point built on the re-used model (%s) (rel %.3e)" % (n, j, x, y, var, rel))
        bad = bad + b2
    if bad:
        print("VIOLATION property=C06 replay=%s" % path)
        return 1
    print("replay: holds now (all %d numbers agree to 1e-9)" % (lay["__n__"][0] - 1))
    return 0
