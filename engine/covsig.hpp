// Path signatures from -fsanitize-coverage=trace-pc-guard callbacks.
// Include in exactly one translation unit of a harness.  When the library was
// built without coverage instrumentation the callbacks are never called and
// every signature is the FNV offset basis (a single "regime").
#pragma once
#include <cstdint>
#include <cstring>

namespace covsig {
static uint32_t n_guards = 0;
static uint8_t* hit = nullptr;
static uint32_t hit_cap = 0;
static unsigned long n_edges = 0;           // dynamic count of callbacks since reset
typedef void (*hook_t)(uint32_t);
static hook_t hook = nullptr;                // scheduler yield hook (C19)
static bool recording = true;
struct Range { uint32_t* lo; uint32_t* hi; };
static Range ranges[16];
static int n_ranges = 0;           // guard arrays registered so far (one per instrumented DSO / TU group)

inline void ensure_cap(uint32_t n) {
   if (n + 1 <= hit_cap) return;
   uint32_t nc = (n + 1) * 2 + 1024;
   uint8_t* nh = new uint8_t[nc];
   std::memset(nh, 0, nc);
   if (hit) { std::memcpy(nh, hit, hit_cap); }
   hit = nh; hit_cap = nc;   // old buffer deliberately leaked (init-time only)
}
inline void reset() { if (hit) std::memset(hit, 0, n_guards + 1); n_edges = 0; }
inline uint64_t hash() {
   uint64_t h = 1469598103934665603ull;
   for (uint32_t i = 1; i <= n_guards; i++) if (hit[i]) { h ^= i; h *= 1099511628211ull; }
   return h;
}
inline uint32_t count_hit() { uint32_t c = 0; for (uint32_t i = 1; i <= n_guards; i++) c += hit[i]; return c; }
} // namespace covsig

extern "C" void __sanitizer_cov_trace_pc_guard_init(uint32_t* start, uint32_t* stop) {
   if (start == stop || *start) return;
   if (covsig::n_ranges < 16) { covsig::ranges[covsig::n_ranges].lo = start; covsig::ranges[covsig::n_ranges].hi = stop; covsig::n_ranges++; }
   for (uint32_t* x = start; x < stop; x++) *x = ++covsig::n_guards;
   covsig::ensure_cap(covsig::n_guards);
}
extern "C" void __sanitizer_cov_trace_pc_guard(uint32_t* g) {
   if (covsig::recording) { covsig::hit[*g] = 1; covsig::n_edges++; }
   if (covsig::hook) covsig::hook(*g);
}
